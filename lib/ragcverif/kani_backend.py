"""Kani/CBMC back end: one `cargo kani` per crate over the scratch copy, results from --export-json.

Status per obligation:
  proved     every CBMC property SUCCESS/unreachable, every cover! satisfied, >0 properties
  refuted    >=1 property FAILED that is a real check (assertion, overflow, bounds, ...)
  undecided  timeout, OOM, compile error, unsupported construct reached, unwinding assertion failed,
             cover unsatisfied (vacuous), zero properties. NEVER reported as a violation.
"""
import json
import os
import re
import subprocess
import time

NOT_A_REFUTATION = ("unwind", "unsupported_construct")


class KResult:
    def __init__(self, ob):
        self.ob = ob
        self.status = "undecided"
        self.reason = ""
        self.checks_total = 0
        self.checks_passed = 0
        self.checks_unreachable = 0
        self.failed = []          # [{description, function, location}]
        self.covers = (0, 0)      # satisfied, total
        self.overflow_sites = []  # [(file, line, description)] arithmetic checks inside /repo sources
        self.time_s = 0.0
        self.solver_s = 0.0
        self.stubs_applied = []
        self.counterexample = None
        self.replay = None


def _env():
    e = dict(os.environ)
    e["CARGO_NET_OFFLINE"] = "true"
    e.pop("RUSTUP_TOOLCHAIN", None)
    e.pop("RUSTFLAGS", None)
    return e


def _rel(path, scratch_repo):
    if path and "/kani_src/" in path:
        return "/verif/kani/" + path.split("/kani_src/")[1]
    if path and path.startswith(scratch_repo):
        return path[len(scratch_repo) + 1:]
    return path


def run(scratch, obligations, jobs=8, log=print):
    """Run all kani obligations; returns {ob.id: KResult}."""
    results = {o.id: KResult(o) for o in obligations}
    by_crate = {}
    for o in obligations:
        by_crate.setdefault(o.crate, []).append(o)
    for crate, obs in by_crate.items():
        _run_crate(scratch, crate, obs, results, jobs, log)
    return results


def _run_crate(scratch, crate, obs, results, jobs, log):
    cdir = os.path.join(scratch.repo, crate)
    out_json = os.path.join(scratch.dir, "kani_%s.json" % crate)
    out_log = os.path.join(scratch.dir, "kani_%s.log" % crate)
    tmax = max(o.timeout for o in obs)
    cmd = ["cargo", "kani"]
    for o in obs:
        cmd += ["--harness", o.full_harness]
    cmd += ["--exact", "-j", str(max(1, min(jobs, len(obs)))), "--output-format", "terse",
            "-Z", "stubbing", "-Z", "unstable-options",
            "--harness-timeout", "%ds" % tmax, "--export-json", out_json]
    t0 = time.time()
    log("  kani[%s]: %d harnesses, -j %d, per-harness timeout %ds" % (crate, len(obs), min(jobs, len(obs)), tmax))
    overall = 600 + tmax * (1 + len(obs) // max(1, jobs))
    try:
        with open(out_log, "w") as lf:
            p = subprocess.run(cmd, cwd=cdir, env=_env(), stdout=lf, stderr=subprocess.STDOUT, timeout=overall)
        rc = p.returncode
    except subprocess.TimeoutExpired:
        rc = -9
        subprocess.call(["pkill", "-x", "cbmc"])
    wall = time.time() - t0
    text = open(out_log, errors="replace").read()
    stubs = {}
    cur = None
    for line in text.splitlines():
        m = re.search(r"Checking harness (\S+?)\.\.\.", line)
        if m:
            cur = m.group(1)
        m = re.search(r"- Stub: (.*)$", line)
        if m and cur:
            stubs.setdefault(cur, []).append(re.sub(r"\s+", "", m.group(1)))
    if not os.path.exists(out_json):
        tail = "\n".join([l for l in text.splitlines() if l.startswith("error") or "error[" in l][:20]) or text[-1500:]
        for o in obs:
            results[o.id].reason = "cargo kani produced no result (rc=%s): compile error or lost anchor\n%s" % (rc, tail)
        return
    data = json.load(open(out_json))
    by_h = {r["harness_id"]: r for r in data["verification_results"]["results"]}
    errs = {e["harness_id"]: e for e in data.get("error_details", [])}
    cb = {c["harness_id"]: c for c in data.get("cbmc", [])}
    for o in obs:
        r = results[o.id]
        h = by_h.get(o.full_harness)
        r.stubs_applied = stubs.get(o.full_harness, [])
        if h is None:
            r.reason = "harness not found in the compiled crate (lost anchor)"
            continue
        r.time_s = h.get("duration_ms", 0) / 1000.0
        st = (cb.get(o.full_harness) or {}).get("cbmc_stats") or {}
        r.solver_s = float(st.get("runtime_decision_procedure_s", 0) or 0)
        checks = h.get("checks", [])
        ncov_ok = ncov = 0
        for c in checks:
            cat = c.get("category", "")
            stt = c.get("status", "")
            desc = c.get("description", "")
            loc = c.get("location", {}) or {}
            f = loc.get("file", "")
            if cat == "cover":
                ncov += 1
                if stt.lower() in ("satisfied", "success"):
                    ncov_ok += 1
                continue
            r.checks_total += 1
            if stt == "Success":
                r.checks_passed += 1
            elif stt == "Unreachable":
                r.checks_unreachable += 1
            elif stt == "Failure":
                r.failed.append({"description": desc, "category": cat, "function": c.get("function", ""),
                                 "location": "%s:%s" % (_rel(f, scratch.repo), loc.get("line", "?"))})
            if cat == "arithmetic_overflow" and f and "kani_src" not in f and "/rustlib/" not in f \
                    and "/.cargo/" not in f and not f.startswith("library/"):
                r.overflow_sites.append((_rel(f, scratch.repo), loc.get("line", "?"), desc, stt))
        r.covers = (ncov_ok, ncov)
        real = [x for x in r.failed if x["category"] not in NOT_A_REFUTATION]
        soft = [x for x in r.failed if x["category"] in NOT_A_REFUTATION]
        e = errs.get(o.full_harness, {})
        if soft and any(x["category"] == "unsupported_construct" for x in soft):
            # an unsupported construct was REACHED: every other failure in this run may be an artefact of it
            r.reason = "undecided: unsupported construct reached: " + "; ".join("%s @ %s" % (x["description"][:80], x["location"]) for x in soft[:3])
        elif real:
            r.status = "refuted"
            r.reason = "; ".join("%s @ %s" % (x["description"], x["location"]) for x in real[:6])
        elif soft:
            r.reason = "undecided: " + "; ".join("%s @ %s" % (x["description"], x["location"]) for x in soft[:4])
        elif h.get("status") != "Success":
            r.reason = "undecided: harness status %s (%s)" % (h.get("status"), e.get("exit_status", e.get("error_type", "?")))
        elif r.checks_total == 0:
            r.reason = "undecided: zero properties generated (vacuous)"
        elif ncov_ok != ncov:
            r.reason = "undecided: %d of %d cover! goals unreachable (vacuous precondition?)" % (ncov - ncov_ok, ncov)
        else:
            want = set(re.sub(r"\s+", "", s) for s in o.stubs)
            got = "".join(r.stubs_applied)
            missing = [s for s in want if s.split("::")[-1] not in got]
            if missing:
                r.reason = "undecided: declared stub(s) not applied: %s" % missing
            else:
                r.status = "proved"
    log("  kani[%s]: done in %.1fs" % (crate, wall))


def counterexample(scratch, ob, log=print):
    """Re-run ONE refuted harness with concrete playback, append the generated unit test for the failing
    check to the scratch copy of the harness file, and execute it NATIVELY against the real code with
    `cargo kani playback`. Returns (test_source or None, playback_output, reproduced: bool|None)."""
    cdir = os.path.join(scratch.repo, ob.crate)
    cmd = ["cargo", "kani", "--harness", ob.full_harness, "--exact", "-Z", "stubbing",
           "-Z", "concrete-playback", "--concrete-playback=print", "-Z", "unstable-options",
           "--harness-timeout", "%ds" % ob.timeout]
    try:
        p = subprocess.run(cmd, cwd=cdir, env=_env(), stdout=subprocess.PIPE, stderr=subprocess.STDOUT,
                           timeout=ob.timeout + 600, text=True, errors="replace")
    except subprocess.TimeoutExpired:
        return None, "counterexample generation timed out", None
    out = p.stdout
    tests = re.findall(r"```\n(.*?)```", out, re.S)
    kani_tail = "\n".join(l for l in out.splitlines() if ("Failed Checks" in l or "File:" in l or "VERIFICATION" in l))
    if not tests:
        return None, kani_tail + "\n(no concrete playback test was produced)", None
    # Kani de-duplicates playback tests by concrete values, so the counterexample of the failing check may be
    # labelled with a cover! goal that happens to share its inputs. Run ALL of them natively against the real
    # code and keep the ones that actually fail there.
    # Kani may print the same test twice (same inputs for a cover! goal and the failing check): keep one per name
    uniq = {}
    for t in tests:
        m0 = re.search(r"fn (kani_concrete_playback_\w+)", t)
        if m0 and m0.group(1) not in uniq:
            uniq[m0.group(1)] = t
    tests = list(uniq.values())
    names = list(uniq.keys())
    hfile = os.path.join(scratch.kani_src, os.path.basename(ob.src_file))
    with open(hfile, "a") as f:
        for t in tests:
            f.write("\n" + t + "\n")
    chosen = None
    try:
        p2 = subprocess.run(["cargo", "kani", "playback", "-Z", "concrete-playback", "-Z", "stubbing", "--",
                             "kani_concrete_playback_" + ob.harness],
                            cwd=cdir, env=_env(), stdout=subprocess.PIPE, stderr=subprocess.STDOUT,
                            timeout=1200, text=True, errors="replace")
        pout = p2.stdout
        failed_names = re.findall(r"test \S*?(kani_concrete_playback_\w+) \.\.\. FAILED", pout)
        ran = re.search(r"test result: (\w+)\. (\d+) passed; (\d+) failed", pout)
        for t, n in zip(tests, names):
            if n in failed_names:
                chosen = t
                break
        if chosen:
            reproduced = True
        elif ran:
            reproduced = False
        else:
            reproduced = None
        keep = [l for l in pout.splitlines() if ("panicked" in l or "test result" in l or "... FAILED" in l or "... ok" in l
                                                  or l.strip().startswith(("O-", "attempt", "index", "range")))]
        note = "" if chosen else "\n(none of the %d generated inputs failed natively)\n%s" % (len(tests), "\n".join(l for l in pout.splitlines() if l.startswith("error"))[:600])
        return chosen, kani_tail + "\n--- native playback on the real code ---\n" + "\n".join(keep[-25:]) + note, reproduced
    except subprocess.TimeoutExpired:
        return chosen, kani_tail + "\n(native playback timed out)", None
