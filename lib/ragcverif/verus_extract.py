"""Mechanical extraction of real functions from /repo into one Verus file per unit, with contracts
spliced from /verif/contracts/<unit>.spec.

The .spec format (line-oriented; everything between directives is raw text):

  @@ unit: <name>                     header keys: unit, source, props, prelude (space separated files under /verif/verus)
  @spec                               raw Verus text (spec fns, lemmas) placed before the extracted code
  @item struct|enum|const|type <Name> copy that item verbatim from the source
  @fn [Type::]name                    extract that fn (inside `impl Type` if given)
    @obligation <id> key=value ...    registers the obligation decided by this function's verification
    @header                           requires/ensures/decreases clauses, spliced before the body '{'
    @sig /regex/ => replacement       edit of the SIGNATURE only (reported as a rewrite)
    @loop <n>                         invariant/decreases clauses for the n-th loop (1-based, source order)
    @at loop <n> body_start|body_end|after   proof text inserted there
    @before /regex/ [#k]              proof text inserted before the k-th match (default 1) of regex in the body
    @after /regex/ [#k]               ... after the end of the STATEMENT LINE containing the match
    @replace /regex/ [#k|all] => new  function-specific rewrite of executable text (counted, reported; exit 2 if it no longer matches)
  @lemma <name>                       registers a proof fn from @spec as an obligation: @obligation line follows
  @end

What extraction changes is exactly: the generic rewrites in GENERIC (each logged with a count) plus the
@replace/@sig rules of the unit. Anything else that Verus rejects is reported as exit 2 (undecided).
"""
import os
import re
import glob

from . import rustlex as L
from .obligations import Obligation, CONTRACT_DIR, VERIF

VERUS_DIR = os.path.join(VERIF, "verus")


class SpecError(Exception):
    pass


class AnchorLost(Exception):
    pass


class FnSpec:
    def __init__(self, name):
        self.name = name
        self.obligation = None
        self.header = ""
        self.sig = []
        self.loops = {}
        self.opt_loops = set()  # loop numbers written `n?`: their annotations are skipped (logged) when the function has fewer loops
        self.ats = []       # (loopno, where, text)
        self.befores = []   # (regex, k, text)
        self.afters = []
        self.replaces = []  # (regex, k, new)
        self.external_body = False
        self.source = None
        self.drops = []       # (start_regex, end_regex): statements removed (prologue the verifier cannot reach)
        self.signature = None  # replacement signature (free variables of the kept body bound as parameters)
        self.truncate = None  # (regex, tail): everything from the line of the first match to the end of the body is dropped, `tail` closes the fn
        self.flags = []  # (NAME, regex): `let ghost NAME: bool` at body start, true iff the regex matches the function's (comment-masked) source
        self.covered_elsewhere = False  # its obligation is registered by the unit that owns the included file
        self.closure_of = None  # (outer fn path): extract `let <name> = |params| -> Ret { body };` from inside it as a fn


class Unit:
    def __init__(self):
        self.head = {}
        self.spec_text = ""
        self.items = []     # (kind, name)
        self.fns = []       # FnSpec
        self.lemmas = []    # (name, obligation dict)
        self.path = None


def _parse_ob(line):
    parts = line.split(None, 1)
    oid = parts[0]
    kv = {}
    if len(parts) > 1:
        for m in re.finditer(r'(\w+)=("([^"]*)"|\S+)', parts[1]):
            kv[m.group(1)] = m.group(3) if m.group(3) is not None else m.group(2)
    kv["id"] = oid
    return kv


def parse_spec(path):
    u = Unit()
    u.path = path
    cur_fn = None
    cur_src = [None]
    sink = None  # (kind, ref...)
    buf = []

    def flush():
        nonlocal buf, sink
        text = "\n".join(buf)
        buf = []
        if sink is None:
            return
        k = sink[0]
        if k == "spec":
            u.spec_text += text + "\n"
        elif k == "header":
            sink[1].header += text + "\n"
        elif k == "loop":
            sink[1].loops[sink[2]] = sink[1].loops.get(sink[2], "") + text + "\n"
        elif k == "at":
            sink[1].ats.append((sink[2], sink[3], text))
        elif k == "before":
            sink[1].befores.append((sink[2], sink[3], text))
        elif k == "after":
            sink[1].afters.append((sink[2], sink[3], text))
        sink = None

    def expand(pth, depth=0):
        out = []
        for ln in open(pth).read().split("\n"):
            m = re.match(r"\s*@include\s+(\S+)(\s+silent)?", ln)
            if m and depth < 4:
                sub = expand(os.path.join(os.path.dirname(pth), m.group(1)), depth + 1)
                if m.group(2):
                    # `silent`: contracts are included and re-verified, but their obligations are registered by the owning unit only
                    sub = [("@covered_elsewhere" if x.strip().startswith("@obligation") else x) for x in sub]
                out.extend(sub)
            else:
                out.append(ln)
        return out

    for raw in expand(path):
        s = raw.strip()
        m = re.match(r"@@\s*(\w+):\s*(.*)$", s)
        if m:
            u.head[m.group(1)] = m.group(2).strip()
            continue
        if s.startswith("@") and not s.startswith("@@"):
            d = s.split(None, 1)
            kw = d[0]
            rest = d[1] if len(d) > 1 else ""
            if kw == "@spec":
                flush(); sink = ("spec",)
            elif kw == "@source":
                flush(); cur_src[0] = rest.strip()
            elif kw == "@item":
                flush(); kind, name = rest.split()
                u.items.append((kind, name, cur_src[0]))
            elif kw == "@fn":
                flush(); cur_fn = FnSpec(rest.strip()); cur_fn.source = cur_src[0]; u.fns.append(cur_fn)
            elif kw == "@closure":
                flush(); outer, cname = rest.split()[:2]
                cur_fn = FnSpec(cname); cur_fn.closure_of = outer; cur_fn.source = cur_src[0]; u.fns.append(cur_fn)
            elif kw == "@lemma":
                flush(); u.lemmas.append([rest.strip(), None]); cur_fn = None
            elif kw == "@obligation":
                flush()
                if cur_fn is not None:
                    cur_fn.obligation = _parse_ob(rest)
                elif u.lemmas:
                    u.lemmas[-1][1] = _parse_ob(rest)
            elif kw == "@covered_elsewhere":
                flush()
                if cur_fn is not None:
                    cur_fn.covered_elsewhere = True
            elif kw == "@external_body":
                flush(); cur_fn.external_body = True
            elif kw == "@drop":
                flush(); m2 = re.match(r"/(.*)/\s*\.\.\s*/(.*)/\s*$", rest)
                if not m2:
                    raise SpecError("bad @drop line: %s" % raw)
                cur_fn.drops.append((m2.group(1), m2.group(2)))
            elif kw == "@truncate_at":
                flush(); m2 = re.match(r"/(.*)/\s*=>\s?(.*)$", rest)
                if not m2:
                    raise SpecError("bad @truncate_at line: %s" % raw)
                cur_fn.truncate = (m2.group(1), m2.group(2))
            elif kw == "@flag":
                flush(); m2 = re.match(r"(\w+)\s+/(.*)/\s*$", rest)
                if not m2:
                    raise SpecError("bad @flag line: %s" % raw)
                cur_fn.flags.append((m2.group(1), m2.group(2)))
            elif kw == "@signature":
                flush(); cur_fn.signature = rest
            elif kw == "@header":
                flush(); sink = ("header", cur_fn)
            elif kw == "@sig":
                flush(); m2 = re.match(r"/(.*)/\s*=>\s*(.*)$", rest)
                cur_fn.sig.append((m2.group(1), m2.group(2)))
            elif kw == "@loop":
                flush()
                if rest.strip().endswith("?"):
                    cur_fn.opt_loops.add(int(rest.strip()[:-1]))
                sink = ("loop", cur_fn, int(rest.strip().rstrip("?")))
            elif kw == "@at":
                flush(); m2 = re.match(r"loop\s+(\d+)(\?)?\s+(body_start|body_end|after)", rest)
                if m2.group(2):
                    cur_fn.opt_loops.add(int(m2.group(1)))
                sink = ("at", cur_fn, int(m2.group(1)), m2.group(3))
            elif kw in ("@before", "@after"):
                flush(); m2 = re.match(r"/(.*)/\s*(?:#(\d+))?\s*$", rest)
                if not m2:
                    raise SpecError("bad %s line: %s" % (kw, raw))
                sink = (kw[1:], cur_fn, m2.group(1), int(m2.group(2) or 1))
            elif kw == "@replace":
                flush(); m2 = re.match(r"/(.*)/\s*(?:#(\d+|all|opt))?\s*=>\s?(.*)$", rest)
                if not m2:
                    raise SpecError("bad @replace line: %s" % raw)
                cur_fn.replaces.append((m2.group(1), m2.group(2) or "1", m2.group(3)))
            elif kw == "@end":
                flush(); cur_fn = None
            else:
                raise SpecError("unknown directive %s in %s" % (kw, path))
            continue
        buf.append(raw)
    flush()
    return u


def load_units():
    return [parse_spec(p) for p in sorted(glob.glob(os.path.join(CONTRACT_DIR, "*.spec")))]


def load_obligations():
    out = []
    for u in load_units():
        defaults = u.head.get("props", "").split()

        def mk(kv, fnname):
            return Obligation(
                id=kv["id"], props=kv.get("props", ",".join(defaults)).split(","), backend="verus",
                kind=kv.get("kind", "complete"), bound=kv.get("bound", ""), tier=kv.get("tier", "quick"),
                functions=[u.head["unit"] + "::" + f for f in kv.get("functions", fnname).split(",")],
                claim=kv.get("claim", ""), timeout=kv.get("timeout", 300),
                assumes=[a.strip() for a in kv.get("assumes", "").split(";") if a.strip()],
                unit=u.head["unit"], vfn=fnname.split("::")[-1])
        for f in u.fns:
            if f.obligation:
                out.append(mk(f.obligation, f.name))
            elif f.header.strip() and "ensures" in f.header and not f.external_body and not f.covered_elsewhere:
                # an extracted real function whose contract the unit's obligations rely on: it is an obligation too
                # (otherwise a change that breaks only this helper's contract would leave its callers "proved")
                short = f.name.split("::")[-1]
                out.append(mk({"id": "A-%s-%s" % (u.head["unit"], f.name.replace("::", ".").replace("_", "-")),
                               "claim": "contract of the extracted helper %s (relied upon by the other obligations of unit %s)" % (f.name, u.head["unit"])},
                              f.name))
        for name, kv in u.lemmas:
            if kv:
                out.append(mk(kv, name))
    return out


# ---------------------------------------------------------------------------------------------
# Generic rewrites (DESIGN §1.3). Each is (name, function(text) -> (text, count)).

def _drop_macro_stmt(text, names):
    """Remove whole `name!( ... );` statements."""
    cnt = 0
    while True:
        msk = L.mask(text)
        m = re.search(r"\b(%s)!\s*\(" % "|".join(names), msk)
        if not m:
            break
        o = msk.find("(", m.start())
        c = L.match_brace(msk, o)
        e = c + 1
        while e < len(text) and text[e] in " \t":
            e += 1
        s = m.start()
        if e < len(text) and text[e] == ";":
            text = text[:s] + text[e + 1:]
        else:
            text = text[:s] + "()" + text[c + 1:]
        cnt += 1
    return text, cnt


def rw_drop_prints(text):
    return _drop_macro_stmt(text, ["eprintln", "println", "eprint", "print"])


def rw_env_cache(text):
    text, c1 = re.subn(r"crate::env_cache::\w+\(\)", "false", text)
    text, c2 = re.subn(r'std::env::var\("RAGC_[A-Z_]*"\)\.is_ok\(\)', "false", text)
    return text, c1 + c2


def rw_drop_cfg_verbose(text):
    """`#[cfg(feature = "verbose_debug")]` guards the NEXT statement/expression: drop both."""
    cnt = 0
    while True:
        msk = L.mask(text)
        m = re.search(r'#\[cfg\(feature\s*=\s*"[^"]*"\)\]', text)
        if not m:
            break
        # next statement: up to matching ';' at depth 0, or a block
        i = m.end()
        depth = 0
        j = i
        while j < len(msk):
            ch = msk[j]
            if ch in "({[":
                depth += 1
            elif ch in ")}]" and depth == 0:
                # the attribute guards the last element of an argument / field list: stop before the closer
                break
            elif ch == "," and depth == 0:
                # ... or an element in the middle of such a list: drop it with its comma
                j += 1
                break
            elif ch in ")}]":
                depth -= 1
                if depth == 0 and ch == "}":
                    # a block statement such as `if c { .. } else { .. }` may continue with else
                    k = j + 1
                    rest = msk[k:].lstrip()
                    if rest.startswith("else"):
                        j += 1
                        continue
                    j += 1
                    break
            elif ch == ";" and depth == 0:
                j += 1
                break
            j += 1
        text = text[:m.start()] + text[j:]
        cnt += 1
    return text, cnt


def rw_for_ref_pattern(text):
    """`for &x in E {`  ->  `for __i_x in 0..E.len() { let x = E[__i_x];`   (E a slice/Vec expression)
    `for (i, &x) in E.iter().enumerate() {`  ->  `for i in 0..E.len() { let x = E[i];`
    Rust's own semantics of iterating a slice by shared reference."""
    cnt = 0
    pat1 = re.compile(r"for\s+\(\s*(\w+)\s*,\s*&(\w+)\s*\)\s+in\s+([\w\.\[\]]+?)\.iter\(\)\.enumerate\(\)\s*\{")
    pat2 = re.compile(r"for\s+&(\w+)\s+in\s+(&?[\w\.\[\]]+?)(?:\.iter\(\))?\s*\{")
    pat3 = re.compile(r"for\s+\(\s*(\w+)\s*,\s*(\w+)\s*\)\s+in\s+([\w\.\[\]]+?)\.iter\(\)\.enumerate\(\)\s*\{")

    def r3(m):
        nonlocal cnt
        cnt += 1
        return "for %s in 0..%s.len() { let %s = &%s[%s];" % (m.group(1), m.group(3), m.group(2), m.group(3), m.group(1))

    def r1(m):
        nonlocal cnt
        cnt += 1
        return "for %s in 0..%s.len() { let %s = %s[%s];" % (m.group(1), m.group(3), m.group(2), m.group(3), m.group(1))

    def r2(m):
        nonlocal cnt
        cnt += 1
        e = m.group(2).lstrip("&")
        return "for __i_%s in 0..%s.len() { let %s = %s[__i_%s];" % (m.group(1), e, m.group(1), e, m.group(1))
    pat4 = re.compile(r"for\s+&(\w+)\s+in\s+([\w\.]+?)\.iter\(\)\.rev\(\)\s*\{")

    def r4(m):
        nonlocal cnt
        cnt += 1
        x, e = m.group(1), m.group(2)
        return "let mut __r_%s: usize = %s.len(); while __r_%s > 0 { __r_%s -= 1; let %s = %s[__r_%s];" % (x, e, x, x, x, e, x)
    pat5 = re.compile(r"for\s+&\(([^)]*)\)\s+in\s+(&?[\w\.]+?)(?:\.iter\(\))?\s*\{")

    def r5(m):
        nonlocal cnt
        cnt += 1
        e = m.group(2).lstrip("&")
        tag = re.sub(r"\W", "", m.group(1).split(",")[0])
        return "for __i_%s in 0..%s.len() { let (%s) = %s[__i_%s];" % (tag, e, m.group(1), e, tag)
    pat6 = re.compile(r"for\s+(\w+)\s+in\s+(?:&([\w\.]+)|([\w\.]+?)\.iter\(\))\s*\{")

    def r6(m):
        nonlocal cnt
        cnt += 1
        x, e = m.group(1), (m.group(2) or m.group(3))
        return "for __i_%s in 0..%s.len() { let %s = &%s[__i_%s];" % (x, e, x, e, x)
    text = pat6.sub(r6, text)
    text = pat5.sub(r5, text)
    text = pat4.sub(r4, text)
    text = pat1.sub(r1, text)
    text = pat3.sub(r3, text)
    text = pat2.sub(r2, text)
    return text, cnt


def rw_anyhow(text):
    """`anyhow::bail!(<fmt args>);` -> `return Err(AnyErr);`   `anyhow!(<fmt args>)` -> `AnyErr`
    (only the presence of an error value matters to the contracts; the message is dropped)."""
    cnt = 0
    while True:
        msk = L.mask(text)
        m = re.search(r"\b(?:anyhow::)?bail!\s*\(", msk)
        if not m:
            break
        o = msk.find("(", m.start())
        c = L.match_brace(msk, o)
        e = c + 1
        if e < len(text) and text[e] == ";":
            e += 1
        text = text[:m.start()] + "return Err(AnyErr);" + text[e:]
        cnt += 1
    while True:
        msk = L.mask(text)
        m = re.search(r"\b(?:anyhow::)?anyhow!\s*\(", msk)
        if not m:
            break
        o = msk.find("(", m.start())
        c = L.match_brace(msk, o)
        text = text[:m.start()] + "AnyErr" + text[c + 1:]
        cnt += 1
    return text, cnt


def rw_drop_if_debug(text):
    """After the env_cache rewrite, debug switches are the literal `false` (or a local bound to it).
    `if <switch> [&& ...] { ... }` without an else branch is dead code: drop the whole statement."""
    cnt = 0
    dbg = set(re.findall(r"let\s+(\w+)\s*=\s*false\s*;", text))
    names = "|".join(["false"] + sorted(dbg))
    while True:
        msk = L.mask(text)
        m = re.search(r"(?m)^([ \t]*)if\s+(?:%s)\b[^{;]*\{" % names, msk)
        if not m:
            break
        o = m.end() - 1
        c = L.match_brace(msk, o)
        rest = msk[c + 1:].lstrip()
        if rest.startswith("else"):
            raise AnchorLost("debug `if` with an else branch is outside the stated extraction rules")
        e = c + 1
        if e < len(text) and text[e] == "\n":
            e += 1
        text = text[:m.start()] + text[e:]
        cnt += 1
    return text, cnt


def rw_drop_crate_use(text):
    """function-local `use crate::...;` imports: the imported items are provided by the unit itself."""
    return re.subn(r"(?m)^[ \t]*use crate::[^;]*;[ \t]*\n", "", text)


def rw_ref_pattern(text):
    """`if let Some(&x) = E {`  ->  `if let Some(__ref_x) = E { let x = *__ref_x;`  (what a `&x` pattern means for a Copy value)"""
    cnt = 0

    def r(m):
        nonlocal cnt
        cnt += 1
        return "if let Some(__ref_%s) = %s { let %s = *__ref_%s;" % (m.group(1), m.group(2), m.group(1), m.group(1))
    text = re.sub(r"if let Some\(&(\w+)\) = ([^{;]+?) \{", r, text)
    return text, cnt


GENERIC = [
    ("drop function-local `use crate::..;` imports", rw_drop_crate_use),
    ("drop #[cfg(feature=..)]-guarded debug statements", rw_drop_cfg_verbose),
    ("drop eprintln!/println! statements", rw_drop_prints),
    ("crate::env_cache::*() and std::env::var(\"RAGC_*\").is_ok() debug switches -> false", rw_env_cache),
    ("drop dead `if <debug switch> { .. }` blocks", rw_drop_if_debug),
    ("anyhow::bail!(..) -> return Err(AnyErr); anyhow!(..) -> AnyErr", rw_anyhow),
    ("`if let Some(&x) = E {` -> `if let Some(__ref_x) = E { let x = *__ref_x;`", rw_ref_pattern),
    ("for &x in slice / for (i,&x) in slice.iter().enumerate() -> indexed loop; for &x in v.iter().rev() -> reverse index while-loop", rw_for_ref_pattern),
]


def _nth(regex, text, msk, k, what):
    ms = list(re.finditer(regex, text))
    if not ms:
        raise AnchorLost("%s anchor /%s/ no longer matches" % (what, regex))
    if k > len(ms):
        raise AnchorLost("%s anchor /%s/ #%d: only %d matches" % (what, regex, k, len(ms)))
    return ms[k - 1]


def extract_fn(src, msk, fs, log):
    """Returns (text, rewrite_log)."""
    within, name = (fs.name.split("::") + [None])[:2] if "::" in fs.name else (None, fs.name)
    pre_log = []
    if fs.closure_of:
        # a non-capturing closure `let <name> = |params| -> Ret { body };` inside fn <closure_of>, emitted as
        # `fn <name>(params) -> Ret { body }` (closure syntax -> fn syntax; nothing inside the body changes)
        ow, on = (fs.closure_of.split("::") + [None])[:2] if "::" in fs.closure_of else (None, fs.closure_of)
        try:
            _, _, obo, obc = L.find_fn(src, msk, on, ow)
        except KeyError as e:
            raise AnchorLost(str(e))
        m = re.search(r"\blet\s+%s\s*=\s*\|" % re.escape(name), msk[obo:obc])
        if not m:
            raise AnchorLost("closure %s not found in fn %s" % (name, fs.closure_of))
        ps = obo + m.end()
        pe = msk.find("|", ps)
        cb = msk.find("{", pe)
        if pe < 0 or cb < 0:
            raise AnchorLost("closure %s in %s: unexpected shape" % (name, fs.closure_of))
        ret = src[pe + 1:cb].strip()
        ce = L.match_brace(msk, cb)
        params = re.sub(r"\s+", " ", src[ps:pe]).strip()
        text = "fn %s(%s) %s %s" % (name, params, ret, src[cb:ce + 1])
        pre_log.append("%s: closure `let %s = |..| {..}` inside %s emitted as a fn (syntax only)" % (name, name, fs.closure_of))
        within = None
        src2 = text
        start, bo, bc = 0, text.index("{", len("fn %s(%s) %s" % (name, params, ret))), len(text) - 1
        src = src2
    else:
        try:
            start, _, bo, bc = L.find_fn(src, msk, name, within)
        except KeyError as e:
            raise AnchorLost(str(e))
        text = src[start:bc + 1]
    if fs.external_body:
        # contract-only external: the body is dropped (it is verified elsewhere or trusted; listed in evidence)
        text = src[start:bo] + "{ unimplemented!() }"
    # strip doc comments / attributes lines at the top (verus ignores most, but #[inline] etc. are fine)
    text = re.sub(r"(?m)^\s*///.*\n", "", text)
    text = re.sub(r"(?m)^\s*#\[(inline|allow|must_use)[^\]]*\]\s*\n", "", text)
    rlog = list(pre_log)
    flag_vals = [(nm, bool(re.search(rgx, L.mask(text)))) for nm, rgx in fs.flags]
    for nm, f in GENERIC:
        text, c = f(text)
        if c:
            rlog.append("%s: %s x%d" % (fs.name, nm, c))
    for rgx, k, new in fs.replaces:
        if k == "opt":
            # optional rule: applied when it matches (logged), silently skipped otherwise
            text, c = re.subn(rgx, new, text, count=1)
            if c == 0:
                continue
        elif k == "all":
            text, c = re.subn(rgx, new, text)
            if c == 0:
                raise AnchorLost("@replace /%s/ no longer matches in %s" % (rgx, fs.name))
        else:
            m = _nth(rgx, text, None, int(k), "@replace in " + fs.name)
            text = text[:m.start()] + m.expand(new) + text[m.end():]
            c = 1
        rlog.append("%s: unit rewrite /%s/ => %s x%d" % (fs.name, rgx, new, c))
    # dropped regions: from the start of the line of the first match to the end of the line of the end match
    for rs, re_ in fs.drops:
        m1 = re.search(rs, text)
        if not m1:
            raise AnchorLost("@drop start /%s/ no longer matches in %s" % (rs, fs.name))
        m2 = re.search(re_, text[m1.start():])
        if not m2:
            raise AnchorLost("@drop end /%s/ no longer matches in %s" % (re_, fs.name))
        a = text.rfind("\n", 0, m1.start()) + 1
        b = text.find("\n", m1.start() + m2.end())
        b = len(text) if b < 0 else b + 1
        dropped = text[a:b]
        text = text[:a] + text[b:]
        import hashlib
        rlog.append("%s: DROPPED %d lines /%s/../%s/ (sha1 %s)" % (fs.name, dropped.count("\n"), rs, re_, hashlib.sha1(dropped.encode()).hexdigest()[:10]))
    if fs.truncate:
        rgx, tail = fs.truncate
        m1 = re.search(rgx, text)
        if not m1:
            raise AnchorLost("@truncate_at /%s/ no longer matches in %s" % (rgx, fs.name))
        a = text.rfind("\n", 0, m1.start()) + 1
        b = text.rstrip().rfind("}")
        dropped = text[a:b]
        import hashlib
        rlog.append("%s: DROPPED the rest of the body from /%s/ on (%d lines, sha1 %s); closed with `%s`" % (
            fs.name, rgx, dropped.count("\n"), hashlib.sha1(dropped.encode()).hexdigest()[:10], tail))
        text = text[:a] + "        " + tail + "\n    " + text[b:]
    if fs.signature:
        mskS = L.mask(text)
        fk = re.search(r"\bfn\s+%s\b" % re.escape(name), mskS).start()
        ls = text.rfind("\n", 0, fk) + 1
        bo2 = mskS.find("{", fk)
        rlog.append("%s: signature replaced (free variables of the kept body bound as parameters): %s" % (fs.name, fs.signature))
        text = text[:ls] + "    " + fs.signature + " " + text[bo2:]
    # signature edits (naming the return value for use in `ensures`)
    for rgx, new in fs.sig:
        m = re.search(rgx, text)
        if not m:
            raise AnchorLost("@sig /%s/ no longer matches in %s" % (rgx, fs.name))
        text = text[:m.start()] + m.expand(new) + text[m.end():]
        rlog.append("%s: signature rewrite /%s/ => %s" % (fs.name, rgx, new))
    msk2 = L.mask(text)
    fnkw = re.search(r"\bfn\s+%s\b" % re.escape(name), msk2).start()
    body_open = msk2.find("{", fnkw)
    # `where` clauses etc. not expected
    body_close = L.match_brace(msk2, body_open)
    ins = []  # (pos, text)
    for nm, val in flag_vals:
        ins.append((body_open + 1, "\n        let ghost %s: bool = %s;" % (nm, "true" if val else "false")))
        rlog.append("%s: syntactic flag %s = %s (does the function text match /%s/)" % (fs.name, nm, val, dict(fs.flags)[nm]))
    lps = L.loops(msk2, body_open, body_close)
    if not fs.external_body:
        unann = [k for k in range(1, len(lps) + 1) if k not in fs.loops]
        if unann:
            # every loop of every function under contract carries an invariant block; a loop without one is new (or the
            # loops were renumbered): Verus could only fail on it for lack of an invariant, which says nothing about the code
            raise AnchorLost("%s: loop(s) %s have no invariant block in the contract (new or renumbered loop)" % (fs.name, unann))
    for n, inv in fs.loops.items():
        if n > len(lps) and n in fs.opt_loops:
            rlog.append("%s: loop %d is gone, its invariant block is not used" % (fs.name, n))
            continue
        if n > len(lps):
            raise AnchorLost("%s: loop %d not found (function has %d loops)" % (fs.name, n, len(lps)))
        ins.append((lps[n - 1][1], "\n" + inv))
    for n, where, t in fs.ats:
        if n > len(lps) and n in fs.opt_loops:
            continue
        if n > len(lps):
            raise AnchorLost("%s: loop %d not found" % (fs.name, n))
        kw, lb, lc = lps[n - 1]
        pos = {"body_start": lb + 1, "body_end": lc, "after": lc + 1}[where]
        ins.append((pos, "\n" + t + "\n"))
    for rgx, k, t in fs.befores:
        m = _nth(rgx, text, msk2, k, "@before in " + fs.name)
        ls = text.rfind("\n", 0, m.start()) + 1
        ins.append((ls, t + "\n"))
    for rgx, k, t in fs.afters:
        m = _nth(rgx, text, msk2, k, "@after in " + fs.name)
        # end of the statement: next ';' at depth 0 relative to the match start, or end of line
        j = m.start()
        depth = 0
        while j < len(msk2):
            ch = msk2[j]
            if ch in "({[":
                depth += 1
            elif ch in ")}]":
                if depth == 0:
                    break
                depth -= 1
            elif ch == ";" and depth == 0 and j >= m.end() - 1:
                j += 1
                break
            j += 1
        ins.append((j, "\n" + t + "\n"))
    if fs.header.strip():
        ins.append((body_open, "\n" + fs.header))
    for pos, t in sorted(ins, key=lambda x: -x[0]):
        text = text[:pos] + t + text[pos:]
    if fs.external_body:
        text = "#[verifier::external_body]\n" + text
    return (within, text), rlog


def build_unit(u, repo_root):
    """Assemble the Verus file text for unit u from repo_root. Returns (text, rewrite_log, fn_line_map)."""
    srcs = {}

    def get_src(rel):
        rel = rel or u.head["source"]
        if rel not in srcs:
            pth = os.path.join(repo_root, rel)
            if not os.path.exists(pth):
                raise AnchorLost("source %s missing" % rel)
            t = open(pth).read()
            srcs[rel] = (t, L.mask(t))
        return srcs[rel]
    get_src(None)
    parts = ["// GENERATED on every run by /verif/lib/ragcverif/verus_extract.py from %s — do not edit.\n" % u.head["source"],
             "#![allow(unused_imports, unused_variables, unused_mut, unused_assignments, dead_code, unused_parens, non_snake_case)]\n",
             "use vstd::prelude::*;\n", "verus! {\n"]
    for pf in u.head.get("prelude", "").split():
        parts.append("// ---- prelude %s ----\n" % pf)
        parts.append(open(os.path.join(VERUS_DIR, pf)).read())
    parts.append("// ---- unit spec (hand-written: spec functions, lemmas) ----\n")
    parts.append(u.spec_text)
    parts.append("// ---- extracted from %s ----\n" % u.head["source"])
    rlog = []
    for kind, name, isrc in u.items:
        src, msk = get_src(isrc)
        try:
            s, e = L.find_item(src, msk, kind, name)
        except KeyError as ex:
            raise AnchorLost(str(ex))
        t = re.sub(r"(?m)^\s*///.*\n", "", src[s:e])
        t = re.sub(r"(?m)^\s*#\[derive[^\]]*\]\s*\n", "", t)
        parts.append(t + "\n")
    impls = {}
    order = []
    for fs in u.fns:
        src, msk = get_src(fs.source)
        (within, text), rl = extract_fn(src, msk, fs, None)
        rlog += rl
        if within:
            if within not in impls:
                impls[within] = []
                order.append(("impl", within))
            impls[within].append(text)
        else:
            order.append(("fn", text))
    for k, v in order:
        if k == "fn":
            parts.append(v + "\n\n")
        else:
            parts.append("impl %s {\n%s\n}\n\n" % (v, "\n\n".join(impls[v])))
    parts.append("} // verus!\nfn main() {}\n")
    return "".join(parts), rlog
