"""Obligation registry.

The registry is NOT a separate hand-kept table: it is parsed on every run from the contract
sources themselves.

Kani:  /verif/kani/*.rs     file header  //@@ key: value     (crate, inject, module)
                            per harness  //@ key: value      directly above the #[kani::proof] fn
Verus: /verif/contracts/*.spec  header   @@ key: value       (unit, source, ...), see verus_extract.py

An obligation = one named contract-level proof goal (a Kani harness or a Verus function/lemma).
"""
import os
import re
import glob

VERIF = os.path.dirname(os.path.dirname(os.path.dirname(os.path.abspath(__file__))))
KANI_DIR = os.path.join(VERIF, "kani")
CONTRACT_DIR = os.path.join(VERIF, "contracts")


class Obligation:
    def __init__(self, **kw):
        self.id = kw["id"]
        self.props = kw["props"]
        self.backend = kw["backend"]          # "kani" | "verus" | "const"
        self.kind = kw.get("kind", "complete")  # complete | bounded
        self.bound = kw.get("bound", "")
        self.tier = kw.get("tier", "quick")
        self.functions = kw.get("functions", [])
        self.claim = kw.get("claim", "")
        self.stubs = kw.get("stubs", [])
        self.timeout = int(kw.get("timeout", 600))
        self.assumes = kw.get("assumes", [])
        # kani
        self.crate = kw.get("crate")
        self.inject = kw.get("inject")
        self.module = kw.get("module")
        self.harness = kw.get("harness")
        self.src_file = kw.get("src_file")
        # verus
        self.unit = kw.get("unit")
        self.vfn = kw.get("vfn")

    @property
    def full_harness(self):
        return "%s::kani_verif::%s" % (self.module, self.harness)

    def brief(self):
        d = {"id": self.id, "backend": self.backend, "kind": self.kind, "functions": self.functions,
             "claim": self.claim}
        if self.kind == "bounded":
            d["bound"] = self.bound
        if self.stubs:
            d["stubs"] = self.stubs
        return d


def parse_kani_file(path):
    head = {}
    obs = []
    cur = {}
    with open(path) as f:
        lines = f.readlines()
    i = 0
    while i < len(lines):
        line = lines[i]
        m = re.match(r"\s*//@@\s*(\w+):\s*(.*)$", line)
        if m:
            head[m.group(1)] = m.group(2).strip()
            i += 1
            continue
        m = re.match(r"\s*//@\s*(\w+):\s*(.*)$", line)
        if m:
            cur[m.group(1)] = m.group(2).strip()
            i += 1
            continue
        m = re.match(r"\s*(pub\s+)?fn\s+(\w+)\s*\(", line)
        if m and cur.get("obligation"):
            name = m.group(2)
            obs.append(Obligation(
                id=cur["obligation"],
                props=cur.get("props", "").split(),
                backend="kani",
                kind=cur.get("kind", "complete"),
                bound=cur.get("bound", ""),
                tier=cur.get("tier", "quick"),
                functions=cur.get("functions", "").split(),
                claim=cur.get("claim", ""),
                stubs=cur.get("stubs", "").split(),
                timeout=cur.get("timeout", 600),
                assumes=[a.strip() for a in cur.get("assumes", "").split(";") if a.strip()],
                crate=head["crate"], inject=head["inject"], module=head["module"],
                harness=name, src_file=path,
            ))
            cur = {}
        i += 1
    return head, obs


def load_kani():
    out = []
    for p in sorted(glob.glob(os.path.join(KANI_DIR, "*.rs"))):
        head, obs = parse_kani_file(p)
        if not head.get("crate"):
            continue
        out.extend(obs)
    return out


def load_all():
    obs = load_kani()
    try:
        from . import verus_extract
        obs.extend(verus_extract.load_obligations())
    except ImportError:
        pass
    ids = [o.id for o in obs]
    dup = set(x for x in ids if ids.count(x) > 1)
    if dup:
        raise SystemExit("duplicate obligation ids: %s" % sorted(dup))
    return obs


def for_property(prop, tier):
    obs = [o for o in load_all() if prop in o.props]
    if tier == "quick":
        obs = [o for o in obs if o.tier == "quick"]
    return obs
