"""Scratch copy of /repo's CURRENT WORKING TREE (not HEAD), outside /repo and /verif.

Every check rebuilds from this copy; it is deleted (with its build output) when the check ends.
"""
import os
import shutil
import subprocess
import tempfile

REPO = os.environ.get("VERIF_REPO", "/repo")


class Scratch:
    def __init__(self, tag="x"):
        base = os.environ.get("VERIF_SCRATCH", "/tmp")
        self.dir = tempfile.mkdtemp(prefix="ragc-verif-%s-" % tag, dir=base)
        self.repo = os.path.join(self.dir, "repo")
        self.kani_src = os.path.join(self.dir, "kani_src")
        self.keep = bool(os.environ.get("VERIF_KEEP"))

    def __enter__(self):
        subprocess.check_call(
            ["rsync", "-a", "--exclude", "/target", "--exclude", ".git", REPO + "/", self.repo + "/"])
        os.makedirs(self.kani_src, exist_ok=True)
        return self

    def __exit__(self, *a):
        if not self.keep:
            shutil.rmtree(self.dir, ignore_errors=True)

    def inject_kani(self, obligations):
        """Append ONE line per source file under contract:
             #[cfg(kani)] #[path = "<scratch>/kani_src/<file>.rs"] mod kani_verif;
        The harness file is copied from /verif/kani into the scratch so that playback tests can be
        appended there without touching /verif. Nothing else in the copy is edited."""
        done = {}
        for o in obligations:
            if o.backend != "kani" or o.inject in done:
                continue
            dst = os.path.join(self.kani_src, os.path.basename(o.src_file))
            shutil.copyfile(o.src_file, dst)
            target = os.path.join(self.repo, o.inject)
            if not os.path.exists(target):
                raise AnchorLost("source file %s no longer exists" % o.inject)
            with open(target, "a") as f:
                f.write('\n#[cfg(kani)] #[path = "%s"] mod kani_verif;\n' % dst)
            done[o.inject] = dst
        return done


class AnchorLost(Exception):
    pass
