"""Driver: decide one property.

exit 0  every obligation of the property discharged (bounded ones: no counterexample within the bound)
exit 1  VIOLATION property=<id> replay=<path>   a verifier-REFUTED obligation not listed in known_findings.json
exit 2  undecided (timeout / OOM / compile error / lost anchor / unsupported construct / vacuity guard)
"""
import json
import os
import sys
import time

from . import obligations as OB
from . import kani_backend as K
from .scratch import Scratch, AnchorLost

VERIF = OB.VERIF
EVID = os.path.join(VERIF, "evidence")
REPLAYS = os.environ.get("VERIF_REPLAYS") or os.path.join(VERIF, "replays")
KNOWN = os.path.join(VERIF, "known_findings.json")


def log(*a):
    print(*a, flush=True)


def load_known():
    if not os.path.exists(KNOWN):
        return []
    return json.load(open(KNOWN)).get("findings", [])


def trusted_scan():
    """Mechanical scan of every assumption-introducing construct in the contract sources."""
    import glob
    import re
    pats = [r"kani::assume\(", r"kani::stub\(", r"#\[verifier::external_body\]", r"\bassume\(",
            r"\badmit\(\)", r"assume_specification", r"#\[verifier::external\b", r"external_type_specification"]
    found = []
    files = glob.glob(os.path.join(VERIF, "kani", "*.rs")) + glob.glob(os.path.join(VERIF, "contracts", "*")) \
        + glob.glob(os.path.join(VERIF, "verus", "*.rs"))
    for f in sorted(files):
        try:
            txt = open(f).read().splitlines()
        except Exception:
            continue
        for n, line in enumerate(txt, 1):
            s = line.strip()
            if s.startswith("//"):
                continue
            for p in pats:
                if re.search(p, s):
                    found.append("%s:%d: %s" % (os.path.relpath(f, VERIF), n, s[:140]))
                    break
    return found


def main(argv):
    import argparse
    ap = argparse.ArgumentParser()
    ap.add_argument("prop")
    ap.add_argument("--tier", default=os.environ.get("VERIF_TIER", "quick"))
    ap.add_argument("--jobs", type=int, default=int(os.environ.get("VERIF_JOBS", "8")))
    ap.add_argument("--only", default=None, help="comma-separated obligation ids (development aid; evidence is not written)")
    args = ap.parse_args(argv)
    prop, tier = args.prop, args.tier
    seed = int(os.environ.get("VERIF_SEED", "0") or 0)
    t0 = time.time()
    obs = OB.for_property(prop, tier)
    if args.only:
        want = set(args.only.split(","))
        obs = [o for o in obs if o.id in want]
    if not obs:
        log("no obligations registered for %s" % prop)
        return 2
    log("== %s tier=%s: %d obligations (%d kani, %d verus) ==" % (
        prop, tier, len(obs), sum(o.backend == "kani" for o in obs), sum(o.backend == "verus" for o in obs)))
    results = {}
    replay_info = {}
    vacuity = {}
    with Scratch(prop) as sc:
        kobs = [o for o in obs if o.backend == "kani"]
        vobs = [o for o in obs if o.backend == "verus"]
        if kobs:
            try:
                sc.inject_kani(kobs)
                results.update(K.run(sc, kobs, jobs=args.jobs, log=log))
            except AnchorLost as e:
                for o in kobs:
                    r = K.KResult(o)
                    r.reason = "anchor lost: %s" % e
                    results[o.id] = r
        if vobs:
            from . import verus_backend as V
            results.update(V.run(sc, vobs, tier=tier, jobs=args.jobs, log=log))
            if tier == "thorough":
                # vacuity guard: every contracted function must be REJECTED when `ensures false` is added
                for unit in sorted(set(o.unit for o in vobs)):
                    vac, names = V.vacuity_probe(sc, unit, log=log)
                    vacuity[unit] = {"probed": names, "vacuous": vac}
                    log("  vacuity[%s]: %d contracted functions probed with `ensures false`, %s" % (
                        unit, len(names), "all rejected" if vac == [] else "NOT REJECTED: %s" % vac))
                    if vac is None or vac:
                        for o in vobs:
                            if o.unit == unit and (vac is None or o.vfn in vac) and results[o.id].status == "proved":
                                results[o.id].status = "undecided"
                                results[o.id].reason = "undecided: vacuity probe: `ensures false` was accepted (contradictory precondition?)"
        # counterexamples for refuted obligations (while the scratch still exists)
        for o in obs:
            r = results[o.id]
            if r.status == "refuted":
                os.makedirs(os.path.join(REPLAYS, prop), exist_ok=True)
                path = os.path.join(REPLAYS, prop, o.id.replace("/", "_") + ".txt")
                if o.backend == "kani":
                    test, outp, reproduced = K.counterexample(sc, o, log=log)
                else:
                    from . import verus_backend as V
                    test, outp, reproduced = V.counterexample(sc, o, r, log=log)
                with open(path, "w") as f:
                    f.write("property: %s\nobligation: %s\nbackend: %s\nfunctions: %s\nclaim: %s\n" % (
                        prop, o.id, o.backend, " ".join(o.functions), o.claim))
                    f.write("failed: %s\n" % r.reason)
                    f.write("replayed_on_real_code: %s\n" % reproduced)
                    f.write("\n--- verifier output ---\n%s\n" % outp)
                    if test:
                        f.write("\n--- counterexample as a unit test (run: cargo kani playback -Z concrete-playback, inside the crate with the harness module injected) ---\n%s\n" % test)
                    if getattr(r, "raw", None):
                        f.write("\n--- raw ---\n%s\n" % r.raw)
                r.replay = path
                r.counterexample = test
                replay_info[o.id] = (path, test is not None, reproduced)
    wall = time.time() - t0

    known = [k for k in load_known() if k.get("property") == prop and k.get("status", "open") == "open"]
    violations = []
    known_hits = []
    undecided = []
    for o in obs:
        r = results[o.id]
        if r.status == "refuted":
            k = _match_known(known, o, r)
            if k:
                known_hits.append((o, r, k))
            else:
                violations.append((o, r))
        elif r.status != "proved":
            undecided.append((o, r))

    for o in obs:
        r = results[o.id]
        tag = {"proved": "ok  ", "refuted": "FAIL", "undecided": "??  "}[r.status]
        extra = "" if r.status == "proved" else "  <- " + r.reason.splitlines()[0][:200]
        log(" %s %-12s %-6s %-9s %6.1fs  %s%s" % (tag, o.id, o.backend, o.kind, r.time_s, " ".join(o.functions)[:70], extra))

    if not args.only and not os.environ.get("VERIF_NO_EVIDENCE"):
        write_evidence(prop, tier, seed, obs, results, wall, violations, known_hits, undecided, vacuity)

    for o, r, k in known_hits:
        log("KNOWN-FINDING: property=%s %s" % (prop, k["what"]))
    if violations:
        for o, r in violations:
            path, has_cex, reproduced = replay_info.get(o.id, (r.replay, False, None))
            suffix = "" if has_cex else " no-failing-input-found"
            log("VIOLATION property=%s replay=%s obligation=%s%s" % (prop, path, o.id, suffix))
        return 1
    if undecided:
        log("UNDECIDED property=%s: %d obligation(s) could not be decided (exit 2, not an alarm)" % (prop, len(undecided)))
        return 2
    log("OK property=%s: %d/%d obligations discharged in %.0fs" % (prop, len(obs) - len(known_hits), len(obs), wall))
    return 0


def _match_known(known, o, r):
    for k in known:
        if k.get("obligation") != o.id:
            continue
        needle = k.get("failed_check_contains")
        if needle and needle not in r.reason:
            continue
        return k
    return None


def write_evidence(prop, tier, seed, obs, results, wall, violations, known_hits, undecided, vacuity=None):
    os.makedirs(EVID, exist_ok=True)
    proof_obs = [o for o in obs if o.kind == "complete"]
    bounded_obs = [o for o in obs if o.kind != "complete"]
    discharged = [o for o in proof_obs if results[o.id].status == "proved"]
    samples = []
    functions = set()
    overflow_sites = {}
    solver_s = 0.0
    checks_total = 0
    stubs = set()
    assumes = set()
    for o in obs:
        r = results[o.id]
        functions.update(o.functions)
        solver_s += getattr(r, "solver_s", 0.0)
        checks_total += getattr(r, "checks_total", 0)
        for s in getattr(r, "stubs_applied", []):
            stubs.add(s)
        for a in o.assumes:
            assumes.add(a)
        for (f, line, desc, st) in getattr(r, "overflow_sites", []):
            overflow_sites.setdefault("%s:%s %s" % (f, line, desc), st)
        d = o.brief()
        d.update({"status": r.status, "verifier_properties": getattr(r, "checks_total", 0),
                  "time_s": round(r.time_s, 2)})
        if r.status != "proved":
            d["reason"] = r.reason[:400]
        samples.append(d)
    trusted = trusted_scan()
    backends = sorted(set(o.backend for o in obs))
    ev = {
        "property_id": prop,
        "tier": tier,
        "seed": seed,
        "level": "proof",
        "coverage": {
            "obligations": len(proof_obs),
            "discharged": len(discharged),
            "checker_cmd": "cargo kani (CBMC 6.11, cadical) on the real crates with harness modules injected; verus 0.2026.09.13 (z3) on functions extracted mechanically from /repo; see /verif/bin/check",
            "trusted_base": trusted,
            "bounded_obligations": [dict(o.brief(), status=results[o.id].status) for o in bounded_obs],
            "bounded_note": "bounded obligations are stand-ins: never counted in obligations/discharged",
            "functions_under_contract": sorted(functions),
            "verifier_properties_total": checks_total,
            "solver_time_s": round(solver_s, 2),
            "backends": backends,
            "stubs_applied": sorted(stubs),
            "arithmetic_overflow_checks_in_repo_code": len(overflow_sites),
            "samples": samples,
            "evaluations": len(obs),
            "distinct_nontrivial": len(obs),
            "rule": "one case = one named contract obligation (Kani harness over full symbolic domain, or Verus function/lemma); all are distinct by id",
            "exhaustive": False,
            "undecided": [o.id for o, _ in undecided],
            "known_findings_hit": [k["what"] for _, _, k in known_hits],
            "vacuity_probes": vacuity or {},
            "extraction_rewrites": sorted(set(r for o in obs for r in getattr(results[o.id], "rewrites", []))),
        },
        "assumptions": sorted(assumes) + [
            "Kani/CBMC and Verus/Z3 are sound; rustc MIR semantics as modelled by Kani",
            "machine integers are modelled exactly (bit-vectors in CBMC; bounded ints with overflow obligations in Verus)",
        ],
        "wall_s": round(wall, 1),
        "violations": len(violations),
    }
    if prop == "C18":
        ev["coverage"]["overflow_sites"] = sorted(overflow_sites.keys())
    with open(os.path.join(EVID, prop + ".json"), "w") as f:
        json.dump(ev, f, indent=1)
