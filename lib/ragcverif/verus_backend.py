"""Verus back end: one generated file per unit (extracted from the scratch copy of /repo on every run),
verified with `verus <file> --output-json --time`.

Status per obligation (= one extracted function or lemma):
  proved     the function's SMT queries all succeeded and no error is reported inside it
  refuted    Verus reports a verification failure inside it (postcondition / precondition / assertion /
             invariant / overflow / bounds). Verus gives no counterexample: a paired bounded Kani harness
             (spec key cex=<obligation id>) is tried for one; otherwise the VIOLATION line ends with
             no-failing-input-found.
  undecided  front-end rejection (unsupported construct, type error), rlimit / timeout, lost anchor.
"""
import json
import os
import re
import subprocess
import time

from . import verus_extract as X

FAIL_PATTERNS = (
    "postcondition not satisfied", "precondition not satisfied", "assertion failed", "invariant not satisfied",
    "possible arithmetic underflow/overflow", "possible division by zero", "decreases not satisfied",
    "index out of bounds", "recommendation not met", "loop invariant", "possible bit shift underflow/overflow",
    "could not prove termination", "unreachable", "expression simplifies to false",
)
UNDECIDED_PATTERNS = ("rlimit", "Resource limit", "timed out", "not supported", "unsupported")


class VResult:
    def __init__(self, ob):
        self.ob = ob
        self.status = "undecided"
        self.reason = ""
        self.time_s = 0.0
        self.solver_s = 0.0
        self.checks_total = 0
        self.raw = ""
        self.replay = None
        self.counterexample = None
        self.rewrites = []
        self.stubs_applied = []
        self.overflow_sites = []


def _env():
    e = dict(os.environ)
    return e


def _fn_ranges(text):
    """[(start_line, name)] for every fn in the generated file (1-based lines)."""
    out = []
    for n, line in enumerate(text.split("\n"), 1):
        m = re.match(r"\s*(?:#\[[^\]]*\]\s*)*(?:pub(?:\([^)]*\))?\s+)?(?:open\s+|closed\s+)?(?:spec\s+|proof\s+|exec\s+)?(?:const\s+)?fn\s+(\w+)", line)
        if m:
            out.append((n, m.group(1)))
    return out


def _enclosing(ranges, line):
    name = None
    for s, nm in ranges:
        if s <= line:
            name = nm
        else:
            break
    return name


def _loc_fn(block, ranges):
    m = re.search(r"-->\s*\S+?:(\d+):(\d+)", block)
    return _enclosing(ranges, int(m.group(1))) if m else None


def _externalize(text, names):
    """Replace the body of each named exec fn by `{ unimplemented!() }` and mark it external_body (contract kept)."""
    from . import rustlex as L
    for nm in sorted(names):
        msk = L.mask(text)
        m = re.search(r"(?m)^([ \t]*)((?:pub(?:\([^)]*\))?\s+)?fn\s+%s\b)" % re.escape(nm), msk)
        if not m:
            continue
        # body '{' = first '{' at bracket depth 0 after the name that is followed by a balanced block ending the item;
        # contracts contain braces only inside parens/brackets or `ensures ... {` blocks, so take the LAST top-level
        # '{' before the matching end: walk forward tracking (), [] and skip `{..}` groups that are followed by ','
        i = m.end()
        depth = 0
        body = -1
        while i < len(msk):
            ch = msk[i]
            if ch in "([":
                depth += 1
            elif ch in ")]":
                depth -= 1
            elif ch == "{" and depth == 0:
                e = L.match_brace(msk, i)
                j = e + 1
                while j < len(msk) and msk[j] in " \t":
                    j += 1
                if j < len(msk) and msk[j] == ",":
                    i = e + 1
                    continue
                body = i
                break
            i += 1
        if body < 0:
            continue
        e = L.match_brace(msk, body)
        text = text[:m.start()] + m.group(1) + "#[verifier::external_body]\n" + text[m.start():body] + "{ unimplemented!() }" + text[e + 1:]
    return text


def run(scratch, obligations, tier="quick", jobs=8, log=print):
    results = {o.id: VResult(o) for o in obligations}
    units = {u.head["unit"]: u for u in X.load_units()}
    by_unit = {}
    for o in obligations:
        by_unit.setdefault(o.unit, []).append(o)
    for uname, obs in by_unit.items():
        _run_unit(scratch, units[uname], obs, results, tier, jobs, log)
    return results


def _run_unit(scratch, u, obs, results, tier, jobs, log, extra_suffix=None, externalize=None, depth=0):
    uname = u.head["unit"]
    t0 = time.time()
    try:
        text, rlog = X.build_unit(u, scratch.repo)
    except (X.AnchorLost, X.SpecError) as e:
        for o in obs:
            results[o.id].reason = "undecided: extraction anchor lost: %s" % e
        return None
    if extra_suffix:
        text = extra_suffix(text)
    if externalize:
        text = _externalize(text, externalize)
    path = os.path.join(scratch.dir, "verus_%s.rs" % uname)
    with open(path, "w") as f:
        f.write(text)
    tmo = max(o.timeout for o in obs)
    rlimit = u.head.get("rlimit", "30")
    cmd = ["verus", path, "--output-json", "--time", "--rlimit", rlimit, "--num-threads", str(jobs),
           "--multiple-errors", "4"]
    try:
        p = subprocess.run(cmd, cwd=scratch.dir, env=_env(), stdout=subprocess.PIPE, stderr=subprocess.PIPE,
                           text=True, errors="replace", timeout=tmo + 120)
        out, err = p.stdout, p.stderr
    except subprocess.TimeoutExpired:
        for o in obs:
            results[o.id].reason = "undecided: verus timed out on unit %s" % uname
        return None
    wall = time.time() - t0
    log("  verus[%s]: %d obligations, %.1fs, rewrites applied: %d" % (uname, len(obs), wall, len(rlog)))
    try:
        data = json.loads(out[out.index("{"):])
    except Exception:
        data = None
    ranges = _fn_ranges(text)
    # errors -> function
    errs = {}
    front_end = []
    blocks = re.split(r"\n(?=error)", "\n" + err)
    for b in blocks:
        b = b.strip()
        if not b.startswith("error"):
            continue
        head = b.split("\n")[0]
        if head.startswith("error: aborting due to"):
            continue
        m = re.search(r"-->\s*\S+?:(\d+):(\d+)", b)
        fn = _enclosing(ranges, int(m.group(1))) if m else None
        is_fail = any(pat in head for pat in FAIL_PATTERNS)
        is_und = any(pat in b for pat in UNDECIDED_PATTERNS)
        if is_fail and not is_und and fn:
            errs.setdefault(fn, []).append((head, b))
        elif is_und and fn and ("rlimit" in b or "Resource limit" in b):
            errs.setdefault(fn, []).append(("UNDECIDED " + head, b))
        else:
            front_end.append(b)
    vr = (data or {}).get("verification-results", {})
    breakdown = {}
    smt_total = 0.0
    if data:
        for mod in data.get("times-ms", {}).get("smt", {}).get("smt-run-module-times", []):
            for fb in mod.get("function-breakdown", []):
                nm = fb["function"].split("::")[-1]
                d = breakdown.setdefault(nm, {"n": 0, "ok": 0, "us": 0})
                d["n"] += 1
                d["ok"] += 1 if fb.get("success") else 0
                d["us"] += fb.get("time-micros", 0)
    fatal = None
    if data is None or vr.get("encountered-vir-error") or (front_end and not vr.get("verified") and not breakdown):
        fatal = "undecided: verus front end rejected the extracted unit (unsupported construct or type error):\n" + \
                "\n".join(front_end)[:1500]
    if fatal and depth < 3:
        # The front end rejected the unit. If every located error sits inside extracted exec functions, drop the bodies of
        # exactly those functions (contract kept, obligations of those functions stay UNDECIDED) and decide the rest:
        # one edited function that left the verifiable subset must not silence every other obligation of the unit.
        exec_names = {f.name.split("::")[-1] for f in u.fns if not f.external_body}
        bad = set()
        located_all = bool(front_end)
        for b in front_end:
            m = re.search(r"-->\s*\S+?:(\d+):(\d+)", b)
            fn = _enclosing(ranges, int(m.group(1))) if m else None
            if b.startswith("error: aborting") or b.startswith("error: could not compile"):
                continue
            if fn and fn in exec_names:
                bad.add(fn)
            elif "For more information" in b or not b.startswith("error"):
                continue
            else:
                located_all = False
        bad -= set(externalize or ())
        if bad and located_all:
            log("  verus[%s]: front end rejected %s; retrying with those bodies dropped" % (uname, ", ".join(sorted(bad))))
            allx = set(externalize or ()) | bad
            text2 = _run_unit(scratch, u, obs, results, tier, jobs, log, extra_suffix, allx, depth + 1)
            for o in obs:
                if o.vfn in bad:
                    r = results[o.id]
                    r.status = "undecided"
                    r.reason = "undecided: verus front end rejected this function (unsupported construct or type error):\n" + \
                               "\n".join(x for x in front_end if _loc_fn(x, ranges) == o.vfn)[:1200]
            return text2
    for o in obs:
        r = results[o.id]
        r.rewrites = rlog
        r.raw = ""
        if fatal:
            # `assert(..) by (compute_only)` evaluating to false is reported by the front end and stops the run: it is a
            # definite refutation of the function it sits in (the rest of the unit stays undecided)
            comp = [e for e in errs.get(o.vfn, []) if "expression simplifies to false" in e[0]]
            if comp:
                r.status = "refuted"
                r.reason = "; ".join(h for h, _ in comp[:2])
                r.raw = "\n\n".join(b for _, b in comp[:2])
            else:
                r.reason = fatal
            continue
        bd = breakdown.get(o.vfn)
        es = errs.get(o.vfn, [])
        hard = [e for e in es if not e[0].startswith("UNDECIDED")]
        soft = [e for e in es if e[0].startswith("UNDECIDED")]
        r.time_s = (bd or {}).get("us", 0) / 1e6
        r.solver_s = r.time_s
        r.checks_total = (bd or {}).get("n", 0)
        if hard:
            r.status = "refuted"
            r.reason = "; ".join(h for h, _ in hard[:4])
            r.raw = "\n\n".join(b for _, b in hard[:6])
        elif soft:
            r.reason = "undecided: " + soft[0][0]
            r.raw = soft[0][1]
        elif bd is None:
            # no SMT query recorded: function missing from the unit or trivially discharged
            if re.search(r"\bfn\s+%s\b" % re.escape(o.vfn), text):
                if front_end:
                    r.reason = "undecided: front-end errors in unit:\n" + "\n".join(front_end)[:800]
                else:
                    r.status = "proved"
                    r.checks_total = 0
            else:
                r.reason = "undecided: function %s not present in generated unit" % o.vfn
        elif bd["ok"] == bd["n"]:
            if front_end:
                r.reason = "undecided: front-end errors in unit:\n" + "\n".join(front_end)[:800]
            else:
                r.status = "proved"
        else:
            r.reason = "undecided: SMT query failed without a located error"
            r.raw = err[-2000:]
    # Failures located in functions that are not obligations themselves (hand-written lemmas, spec helpers): the proofs
    # of the unit's obligations may rest on them, so nothing "proved" in this unit can be reported as proved.
    all_vfns = {x.vfn for x in obs}
    from . import obligations as _O
    try:
        all_vfns |= {x.vfn for x in _O.load_all() if getattr(x, "unit", None) == uname}
    except Exception:
        pass
    # functions re-verified here whose obligations belong to the unit owning an included file are not strays either
    all_vfns |= {f.name.split("::")[-1] for f in u.fns if getattr(f, "covered_elsewhere", False)}
    stray = {fn: es for fn, es in errs.items() if fn not in all_vfns}
    if stray and not fatal:
        why = "; ".join("%s: %s" % (fn, es[0][0]) for fn, es in sorted(stray.items()))[:600]
        for o in obs:
            r = results[o.id]
            if r.status == "proved":
                r.status = "undecided"
                r.reason = "undecided: a helper of unit %s failed to verify, so this proof is not established (%s)" % (uname, why)
                r.raw = "\n\n".join(b for es in stray.values() for _, b in es[:2])[:4000]
    # A refutation must reproduce when the function is verified on its own: Verus shares solver state between the
    # functions of a file, and a failure elsewhere in the unit was seen to make a sound but trigger-dependent proof of
    # an unrelated function fail. Not reproducing => undecided (exit 2), never an alarm.
    for o in obs:
        r = results[o.id]
        if r.status != "refuted":
            continue
        try:
            q = subprocess.run(["verus", path, "--rlimit", rlimit, "--multiple-errors", "4", "--verify-root",
                                "--verify-function", "*" + o.vfn],
                               cwd=scratch.dir, env=_env(), stdout=subprocess.PIPE, stderr=subprocess.PIPE,
                               text=True, errors="replace", timeout=tmo + 120)
        except subprocess.TimeoutExpired:
            continue
        m = re.search(r"verification results:: (\d+) verified, (\d+) errors", q.stdout + q.stderr)
        if m and int(m.group(2)) == 0 and int(m.group(1)) > 0:
            r.status = "undecided"
            r.reason = "undecided: the failure did not reproduce when %s was verified in isolation (unstable proof): %s" % (o.vfn, r.reason)
    return text


def vacuity_probe(scratch, unit_name, log=print, jobs=8):
    """Thorough-tier guard against contradictory preconditions / invariants: for EACH contracted (non-external)
    function of the unit, verify a copy of the unit in which only THAT function's header gets an extra
    `ensures false`, and require that Verus REJECTS it. (One function per probe: strengthening a callee would make
    every caller trivially verify.) Returns (vacuous_function_names, probed_names); (None, names) on tool failure."""
    from concurrent.futures import ThreadPoolExecutor
    u = [x for x in X.load_units() if x.head["unit"] == unit_name][0]
    text, _ = X.build_unit(u, scratch.repo)
    fns = [f for f in u.fns if f.header.strip() and ("ensures" in f.header or "requires" in f.header) and not f.external_body]
    names = [f.name.split("::")[-1] for f in fns]

    def one(f):
        nm = f.name.split("::")[-1]
        hdr = f.header.strip("\n")
        mfn = re.search(r"\bfn\s+%s\s*(<[^>]*>)?\s*\(" % re.escape(nm), text)
        # the header spliced onto THIS function: first occurrence after its own `fn name(`
        at = text.find(hdr, mfn.start() if mfn else 0)
        if at < 0:
            return nm, None
        if "ensures" in hdr:
            e = text.find("ensures", at)
            probe = text[:e + len("ensures")] + "\n        false," + text[e + len("ensures"):]
        else:
            # a contract with preconditions only (its obligations are assertions in the body): add the clause
            e = at + len(hdr)
            probe = text[:e] + "\n        ensures\n            false,\n" + text[e:]
        path = os.path.join(scratch.dir, "verus_%s_vacuity_%s.rs" % (unit_name, nm))
        open(path, "w").write(probe)
        p = subprocess.run(["verus", path, "--output-json", "--time", "--rlimit", "20", "--multiple-errors", "1", "--num-threads", "2"],
                           cwd=scratch.dir, stdout=subprocess.PIPE, stderr=subprocess.PIPE, text=True, errors="replace")
        try:
            data = json.loads(p.stdout[p.stdout.index("{"):])
        except Exception:
            return nm, None
        ok = None
        for mod in data.get("times-ms", {}).get("smt", {}).get("smt-run-module-times", []):
            for fb in mod.get("function-breakdown", []):
                if fb["function"].split("::")[-1] == nm:
                    ok = (ok if ok is not None else True) and bool(fb.get("success"))
        return nm, ok
    with ThreadPoolExecutor(max_workers=max(1, jobs // 2)) as ex:
        res = list(ex.map(one, fns))
    if any(ok is None for _, ok in res):
        return None, names
    return [nm for nm, ok in res if ok], names


def counterexample(scratch, ob, r, log=print):
    """Verus has no counterexample. If the spec names a paired Kani harness (cex=<id>), try it."""
    note = r.raw or r.reason
    return None, note, None
