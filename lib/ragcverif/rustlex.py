"""Minimal Rust lexer utilities: enough to find items and match braces while skipping strings,
chars, lifetimes and comments. No parsing beyond that — extraction is textual and mechanical."""
import re


def mask(src):
    """Return a same-length string where the contents of comments, string and char literals are
    replaced by spaces (newlines kept). Brace matching and regex anchors operate on the mask."""
    out = list(src)
    i, n = 0, len(src)
    while i < n:
        c = src[i]
        if src.startswith("//", i):
            j = src.find("\n", i)
            j = n if j < 0 else j
            for k in range(i, j):
                out[k] = " "
            i = j
        elif src.startswith("/*", i):
            depth, j = 1, i + 2
            while j < n and depth:
                if src.startswith("/*", j):
                    depth += 1
                    j += 2
                elif src.startswith("*/", j):
                    depth -= 1
                    j += 2
                else:
                    j += 1
            for k in range(i, j):
                if out[k] != "\n":
                    out[k] = " "
            i = j
        elif c == '"' or (c in "br" and re.match(r'b?r?#*"', src[i:i + 6]) and (i == 0 or not (src[i - 1].isalnum() or src[i - 1] == "_"))):
            m = re.match(r'(b?)(r?)(#*)"', src[i:])
            raw, hashes = m.group(2), m.group(3)
            j = i + m.end()
            if raw:
                end = '"' + hashes
                e = src.find(end, j)
                e = n if e < 0 else e + len(end)
            else:
                e = j
                while e < n and src[e] != '"':
                    e += 2 if src[e] == "\\" else 1
                e += 1
            for k in range(i + m.end(), e - 1 - len(hashes) if raw else e - 1):
                if out[k] != "\n":
                    out[k] = " "
            i = e
        elif c == "'" or (c == "b" and src.startswith("b'", i)):
            s = i + (1 if c == "b" else 0)
            m = re.match(r"'(\\.[^']*|[^'\\])'", src[s:])
            if m:
                for k in range(s + 1, s + m.end() - 1):
                    out[k] = " "
                i = s + m.end()
            else:
                i = s + 1  # lifetime
        else:
            i += 1
    return "".join(out)


def match_brace(msk, open_idx):
    """msk[open_idx] is '{' / '(' / '['; return index of the matching closer."""
    pairs = {"{": "}", "(": ")", "[": "]"}
    o = msk[open_idx]
    c = pairs[o]
    depth = 0
    for i in range(open_idx, len(msk)):
        if msk[i] == o:
            depth += 1
        elif msk[i] == c:
            depth -= 1
            if depth == 0:
                return i
    raise ValueError("unbalanced %s at %d" % (o, open_idx))


def find_fn(src, msk, name, within=None):
    """Locate `fn name` (optionally inside `impl within`). Returns (start, sig_end, body_open, body_close)
    where start includes preceding attributes / visibility, sig_end == body_open."""
    lo, hi = 0, len(src)
    if within:
        m = re.search(r"\bimpl(?:\s*<[^>]*>)?\s+%s\b[^{;]*\{" % re.escape(within), msk)
        if not m:
            raise KeyError("impl %s not found" % within)
        lo = m.end() - 1
        hi = match_brace(msk, lo)
    for m in re.finditer(r"\bfn\s+%s\b" % re.escape(name), msk[lo:hi]):
        s = lo + m.start()
        # depth check: must be at impl depth (1) or file depth (0) relative to lo
        depth = msk[lo:s].count("{") - msk[lo:s].count("}")
        if depth != (1 if within else 0):
            continue
        # body '{' = first '{' at bracket depth 0 after the name; a ';' at depth 0 first means a declaration
        b = -1
        d = 0
        i = s
        while i < hi:
            ch = msk[i]
            if ch in "([":
                d += 1
            elif ch in ")]":
                d -= 1
            elif ch == "{" and d == 0:
                b = i
                break
            elif ch == ";" and d == 0:
                break
            i += 1
        if b < 0:
            continue
        e = match_brace(msk, b)
        # extend start backwards over `pub`, `pub(crate)`, `const`, attributes and doc comments
        ls = src.rfind("\n", 0, s) + 1
        start = ls
        while True:
            pl = src.rfind("\n", 0, start - 1) + 1 if start > 0 else 0
            line = src[pl:start].strip()
            if start > 0 and (line.startswith("#[") or line.startswith("///") or line.startswith("//")):
                start = pl
            else:
                break
        return start, b, b, e
    raise KeyError("fn %s not found%s" % (name, " in impl " + within if within else ""))


def find_item(src, msk, kind, name):
    """struct/enum/const item text."""
    m = re.search(r"(?m)^[ \t]*(?:pub(?:\([^)]*\))?\s+)?%s\s+%s\b" % (kind, re.escape(name)), msk)
    if not m:
        raise KeyError("%s %s not found" % (kind, name))
    s = m.start()
    b = msk.find("{", s)
    # the item's terminating ';' is the first one at bracket depth 0 (`[u8; 128]` contains one inside brackets)
    semi, d = -1, 0
    for i in range(s, len(msk)):
        ch = msk[i]
        if ch in "([":
            d += 1
        elif ch in ")]":
            d -= 1
        elif ch == "{" and d == 0 and kind != "const":
            break
        elif ch == ";" and d == 0:
            semi = i
            break
    if kind == "const" or (0 <= semi < b) or b < 0:
        return s, semi + 1
    return s, match_brace(msk, b) + 1


def loops(msk, lo, hi):
    """Source-order list of loops inside msk[lo:hi]: (kw_index, body_open, body_close)."""
    out = []
    for m in re.finditer(r"\b(while|for|loop)\b", msk[lo:hi]):
        s = lo + m.start()
        # skip `for` in `impl X for Y` / HRTB — not expected inside fn bodies
        b = s
        depth_paren = 0
        i = s
        while i < hi:
            ch = msk[i]
            if ch in "([":
                depth_paren += 1
            elif ch in ")]":
                depth_paren -= 1
            elif ch == "{" and depth_paren == 0:
                b = i
                break
            i += 1
        else:
            continue
        # closure bodies `|x| {` inside the loop header are not expected in the targeted code
        out.append((s, b, match_brace(msk, b)))
    return out
