// ---- shim for Archive::write_buffer: BTreeMap<usize, Vec<(Vec<u8>, u64)>> (TRUSTED std behaviour) ----
// The view is the association list in ascending key order, which is how a BTreeMap iterates.

#[verifier::external_body]
pub struct WriteBuffer {
    _p: core::marker::PhantomData<u8>,
}

pub open spec fn entry_view(e: Seq<(Vec<u8>, u64)>) -> Seq<(Seq<u8>, u64)> {
    Seq::new(e.len(), |i: int| (e[i].0@, e[i].1))
}

pub open spec fn keys_ascending(v: Seq<(usize, Seq<(Seq<u8>, u64)>)>) -> bool {
    forall|i: int, j: int| 0 <= i < j < v.len() ==> v[i].0 < v[j].0
}

/// insert (data, meta) under key k: appended to the key's list, or a new one-element list at its sorted position
pub open spec fn buf_insert(v: Seq<(usize, Seq<(Seq<u8>, u64)>)>, k: usize, x: (Seq<u8>, u64)) -> Seq<(usize, Seq<(Seq<u8>, u64)>)>
    decreases v.len(),
{
    if v.len() == 0 {
        seq![(k, seq![x])]
    } else if v[0].0 == k {
        seq![(k, v[0].1.push(x))] + v.drop_first()
    } else if v[0].0 > k {
        seq![(k, seq![x])] + v
    } else {
        seq![v[0]] + buf_insert(v.drop_first(), k, x)
    }
}

impl WriteBuffer {
    pub uninterp spec fn view(&self) -> Seq<(usize, Seq<(Seq<u8>, u64)>)>;

    /// TRUSTED (std): BTreeMap::len
    #[verifier::external_body]
    pub fn len(&self) -> (r: usize)
        ensures
            r == self.view().len(),
    {
        unimplemented!()
    }

    /// TRUSTED (std): BTreeMap::pop_first removes and returns the entry with the smallest key; iterating a BTreeMap
    /// by value visits the entries in exactly this order.
    #[verifier::external_body]
    pub fn pop_first(&mut self) -> (r: Option<(usize, Vec<(Vec<u8>, u64)>)>)
        ensures
            old(self).view().len() == 0 ==> r.is_none() && final(self).view() == old(self).view(),
            old(self).view().len() > 0 ==> r.is_some() && r.unwrap().0 == old(self).view()[0].0 && entry_view(r.unwrap().1@) == old(
                self,
            ).view()[0].1 && final(self).view() == old(self).view().drop_first(),
    {
        unimplemented!()
    }

    /// TRUSTED (std): `map.entry(k).or_default().push((data, meta))`
    #[verifier::external_body]
    pub fn push_entry(&mut self, k: usize, data: Vec<u8>, metadata: u64)
        ensures
            final(self).view() == buf_insert(old(self).view(), k, (data@, metadata)),
    {
        unimplemented!()
    }
}

/// TRUSTED (std): std::mem::take on the map: the contents move out, an empty map stays behind.
#[verifier::external_body]
pub fn take_buffer(b: &mut WriteBuffer) -> (r: WriteBuffer)
    ensures
        r.view() == old(b).view(),
        final(b).view().len() == 0,
{
    unimplemented!()
}
