// ---- shim for the name -> id index of the archive directory (HashMap<String, usize>; TRUSTED std behaviour) ----
// needs prelude_string.rs (sbytes / str_bytes)

#[verifier::external_body]
pub struct StreamMap {
    _p: core::marker::PhantomData<u8>,
}

impl StreamMap {
    /// the map from name bytes to stream id
    pub uninterp spec fn map(&self) -> Map<Seq<u8>, usize>;

    /// TRUSTED (std): HashMap::insert
    #[verifier::external_body]
    pub fn insert(&mut self, k: String, v: usize) -> (r: Option<usize>)
        ensures
            final(self).map() == old(self).map().insert(sbytes(&k), v),
    {
        unimplemented!()
    }

    /// TRUSTED (std): HashMap::clear
    #[verifier::external_body]
    pub fn clear(&mut self)
        ensures
            final(self).map() == Map::<Seq<u8>, usize>::empty(),
    {
        unimplemented!()
    }

    /// TRUSTED (std): HashMap::get with a &str key (String: Borrow<str>, equal strings have equal bytes)
    #[verifier::external_body]
    pub fn get(&self, k: &str) -> (r: Option<&usize>)
        ensures
            r.is_some() == self.map().dom().contains(str_bytes(k)),
            r.is_some() ==> *r.unwrap() == self.map()[str_bytes(k)],
    {
        unimplemented!()
    }
}
