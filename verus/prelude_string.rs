// ---- shims for String <-> bytes (TRUSTED std behaviour) ----

/// the UTF-8 bytes of a String
pub uninterp spec fn sbytes(s: &String) -> Seq<u8>;

pub assume_specification[ String::len ](s: &String) -> (r: usize)
    ensures
        r == sbytes(s).len(),
;

pub assume_specification[ String::as_bytes ](s: &String) -> (r: &[u8])
    ensures
        r@ == sbytes(s),
;

/// TRUSTED: two Strings are equal exactly when their bytes are equal.
#[verifier::external_body]
pub fn string_eq(a: &String, b: &String) -> (r: bool)
    ensures
        r == (sbytes(a) == sbytes(b)),
{
    a == b
}

/// TRUSTED: ASCII bytes are valid UTF-8; the String built from them has exactly those bytes.
/// (String::from_utf8(v).expect(..) panics on invalid UTF-8: the precondition makes that unreachable.)
#[verifier::external_body]
pub fn string_from_ascii(v: Vec<u8>) -> (r: String)
    requires
        forall|i: int| 0 <= i < v@.len() ==> v@[i] < 128,
    ensures
        sbytes(&r) == v@,
{
    String::from_utf8(v).expect("Invalid UTF-8 in decoded contig name")
}

/// the UTF-8 bytes of a &str
pub uninterp spec fn str_bytes(s: &str) -> Seq<u8>;

/// TRUSTED (std): str::to_string copies the bytes.
#[verifier::external_body]
pub fn str_to_string(s: &str) -> (r: String)
    ensures
        sbytes(&r) == str_bytes(s),
{
    s.to_string()
}

/// TRUSTED (std): String::new is empty.
#[verifier::external_body]
pub fn string_new() -> (r: String)
    ensures
        sbytes(&r).len() == 0,
{
    String::new()
}

/// TRUSTED (std): pushing the char of an ASCII byte appends exactly that byte (a byte >= 128 becomes a two-byte
/// UTF-8 sequence: nothing is promised then).
#[verifier::external_body]
pub fn string_push_byte(s: &mut String, b: u8)
    ensures
        b < 128 ==> sbytes(final(s)) == sbytes(old(s)).push(b),
{
    s.push(b as char)
}

/// TRUSTED (std): String::clone copies the bytes.
#[verifier::external_body]
pub fn string_clone(s: &String) -> (r: String)
    ensures
        sbytes(&r) == sbytes(s),
{
    s.clone()
}
