// ---- shims for the byte sinks / sources of the archive container (OS boundary; TRUSTED) ----
// The file is modelled as the byte sequence written through the BufWriter (`written()`), and a reader as a
// byte sequence (`content()`) with a position. What is assumed of std / the OS is stated per function.

/// the AGC length-prefixed big-endian integer: minimal byte count n (0..=8), then n bytes, most significant first.
/// (Same rule as the independent spec function of Kani obligation O-02a-w.)
pub open spec fn vint_n(v: u64) -> int {
    if v == 0 {
        0
    } else if v < 0x100 {
        1
    } else if v < 0x1_0000 {
        2
    } else if v < 0x100_0000 {
        3
    } else if v < 0x1_0000_0000 {
        4
    } else if v < 0x100_0000_0000 {
        5
    } else if v < 0x1_0000_0000_0000 {
        6
    } else if v < 0x100_0000_0000_0000 {
        7
    } else {
        8
    }
}

pub open spec fn vint(v: u64) -> Seq<u8> {
    seq![vint_n(v) as u8] + Seq::new(vint_n(v) as nat, |i: int| ((v >> ((8 * (vint_n(v) - 1 - i)) as u64)) & 0xff) as u8)
}

pub proof fn lemma_vint_len(v: u64)
    ensures
        1 <= vint(v).len() <= 9,
        vint(v).len() == vint_n(v) + 1,
{
}

/// 8-byte little-endian
pub uninterp spec fn le8(v: u64) -> Seq<u8>;

pub broadcast axiom fn axiom_le8_len(v: u64)
    ensures
        #[trigger] le8(v).len() == 8,
;

/// TRUSTED (std): u64::to_le_bytes
#[verifier::external_body]
pub fn u64_to_le_bytes(v: u64) -> (r: [u8; 8])
    ensures
        r@ == le8(v),
{
    v.to_le_bytes()
}

#[verifier::external_body]
pub struct BufWriter {
    _p: core::marker::PhantomData<u8>,
}

impl BufWriter {
    /// every byte handed to the writer so far, in order (= the file content once flushed)
    pub uninterp spec fn written(&self) -> Seq<u8>;

    /// every byte of written() has reached the file: nothing is pending in the buffer and no write error is outstanding
    pub uninterp spec fn durable(&self) -> bool;

    /// TRUSTED (std): write_all either appends all of buf (Ok) or fails; on failure some prefix may have been appended.
    /// Nothing is promised about durability after a write: the bytes may sit in the buffer.
    #[verifier::external_body]
    pub fn write_all(&mut self, buf: &[u8]) -> (r: Result<()>)
        ensures
            r.is_ok() ==> final(self).written() == old(self).written() + buf@,
            r.is_err() ==> old(self).written().is_prefix_of(final(self).written()),
    {
        unimplemented!()
    }

    /// TRUSTED (std): flush moves buffered bytes to the file; the byte sequence is unchanged; only a SUCCESSFUL flush
    /// makes it durable (disk full, file-size limit ... surface here or in write_all as Err).
    #[verifier::external_body]
    pub fn flush(&mut self) -> (r: Result<()>)
        ensures
            final(self).written() == old(self).written(),
            r.is_ok() ==> final(self).durable(),
    {
        unimplemented!()
    }
}

/// Contract of the REAL ragc_common::varint::write_varint with a Vec<u8> sink, discharged on the real function by
/// Kani obligation O-02a-w (all 2^64 values). TRUSTED on top of it: std's Write for Vec<u8> never fails.
#[verifier::external_body]
pub fn write_varint(w: &mut Vec<u8>, value: u64) -> (r: Result<usize>)
    ensures
        r.is_ok(),
        final(w)@ == old(w)@ + vint(value),
{
    unimplemented!()
}

/// a seekable byte source (std::io::Cursor<&Vec<u8>> and BufReader<File> in the real code)
#[verifier::external_body]
pub struct ByteReader {
    _p: core::marker::PhantomData<u8>,
}

pub type BufReader = ByteReader;

pub type Cursor = ByteReader;

impl ByteReader {
    pub uninterp spec fn content(&self) -> Seq<u8>;

    pub uninterp spec fn pos(&self) -> int;

    /// TRUSTED (std / OS): seeking to an absolute offset sets the position (also beyond the end; reads there fail);
    /// an absolute seek to an offset inside an open regular file (or a Cursor) does not fail.
    #[verifier::external_body]
    pub fn seek(&mut self, to: SeekFrom) -> (r: Result<u64>)
        ensures
            final(self).content() == old(self).content(),
            r.is_ok() ==> (to matches SeekFrom::Start(o) ==> final(self).pos() == o),
            (to matches SeekFrom::Start(o) && o <= old(self).content().len()) ==> r.is_ok(),
            r.is_ok() ==> (to matches SeekFrom::End(d) ==> final(self).pos() == old(self).content().len() + d && final(self).pos() >= 0),
            (to matches SeekFrom::End(d) && old(self).content().len() + d >= 0 && d <= 0) ==> r.is_ok(),
    {
        unimplemented!()
    }

    /// TRUSTED (std): read_exact fills buf with the next buf.len() bytes and advances, or fails (position then
    /// unspecified but not before the old one) when fewer remain.
    #[verifier::external_body]
    pub fn read_exact(&mut self, buf: &mut [u8]) -> (r: Result<()>)
        requires
            0 <= old(self).pos(),
        ensures
            final(self).content() == old(self).content(),
            final(buf)@.len() == old(buf)@.len(),
            r.is_ok() == (old(self).pos() + old(buf)@.len() <= old(self).content().len()),
            r.is_ok() ==> final(self).pos() == old(self).pos() + old(buf)@.len() && final(buf)@ == old(self).content().subrange(
                old(self).pos(),
                old(self).pos() + old(buf)@.len(),
            ),
            r.is_err() ==> final(self).pos() >= old(self).pos(),
    {
        unimplemented!()
    }
}

impl ByteReader {
    /// TRUSTED (std): a single read hands out SOME prefix of what remains (possibly shorter than the buffer, 0 only at the
    /// end of the input or for an empty buffer) and advances by that much; the rest of the buffer keeps its content.
    #[verifier::external_body]
    pub fn read(&mut self, buf: &mut [u8]) -> (r: Result<usize>)
        requires
            0 <= old(self).pos(),
        ensures
            final(self).content() == old(self).content(),
            final(buf)@.len() == old(buf)@.len(),
            r.is_ok() ==> {
                let n = r.unwrap() as int;
                &&& n <= old(buf)@.len()
                &&& old(self).pos() + n <= old(self).content().len() || n == 0
                &&& final(self).pos() == old(self).pos() + n
                &&& (n == 0 ==> old(buf)@.len() == 0 || old(self).pos() >= old(self).content().len())
                &&& (old(self).pos() + n <= old(self).content().len() ==> final(buf)@.subrange(0, n) == old(self).content().subrange(old(self).pos(), old(self).pos() + n))
                &&& final(buf)@.subrange(n, old(buf)@.len() as int) == old(buf)@.subrange(n, old(buf)@.len() as int)
            },
            r.is_err() ==> final(self).pos() >= old(self).pos(),
    {
        unimplemented!()
    }
}

impl ByteReader {
    /// TRUSTED (OS): the metadata of an open regular file reports its length.
    #[verifier::external_body]
    pub fn metadata(&self) -> (r: Result<Metadata>)
        ensures
            r.is_ok() ==> r.unwrap().size() == self.content().len() && self.content().len() <= u64::MAX,
    {
        unimplemented!()
    }
}

#[verifier::external_body]
pub struct Metadata {
    _p: core::marker::PhantomData<u8>,
}

impl Metadata {
    pub uninterp spec fn size(&self) -> int;

    #[verifier::external_body]
    pub fn len(&self) -> (r: u64)
        ensures
            r == self.size(),
    {
        unimplemented!()
    }
}

/// TRUSTED (std): u64::from_le_bytes inverts to_le_bytes (the pair is also checked through write_fixed_u64 /
/// read_fixed_u64 by Kani obligation O-02b).
#[verifier::external_body]
pub fn u64_from_le_bytes(b: [u8; 8]) -> (r: u64)
    ensures
        forall|v: u64| b@ == #[trigger] le8(v) ==> r == v,
{
    u64::from_le_bytes(b)
}

pub enum SeekFrom {
    Start(u64),
    End(i64),
    Current(i64),
}

/// TRUSTED (std): a cursor over a byte vector starts at 0.
#[verifier::external_body]
pub fn cursor_new(v: &Vec<u8>) -> (c: ByteReader)
    ensures
        c.pos() == 0,
        c.content() == v@,
{
    unimplemented!()
}

/// Contract of the REAL ragc_common::varint::read_varint, discharged on the real function by Kani obligations
/// O-02a-r / O-02a-rt (reads back exactly what write_varint wrote, all 2^64 values) and O-14v (total on any bytes):
/// if the bytes at the position are vint(v) the call returns v and advances past them; on anything else it returns
/// some value or an error, never moving backwards and consuming at least one byte on success.
#[verifier::external_body]
pub fn read_varint(reader: &mut ByteReader) -> (r: Result<(u64, usize)>)
    requires
        0 <= old(reader).pos(),
    ensures
        final(reader).content() == old(reader).content(),
        final(reader).pos() >= old(reader).pos(),
        r.is_ok() ==> final(reader).pos() >= old(reader).pos() + 1 && final(reader).pos() <= final(reader).content().len(),
        forall|v: u64|
            old(reader).pos() + vint(v).len() <= old(reader).content().len() && old(reader).content().subrange(
                old(reader).pos(),
                old(reader).pos() + vint(v).len(),
            ) == #[trigger] vint(v) ==> r.is_ok() && r.unwrap().0 == v && final(reader).pos() == old(reader).pos() + vint(v).len(),
{
    unimplemented!()
}
