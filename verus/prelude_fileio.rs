// ---- shims for std::fs::File / std::io::{Seek, Read, SeekFrom} (OS boundary; TRUSTED, unconstrained) ----
// Nothing is assumed about what the OS returns: seek and read_exact may succeed or fail arbitrarily, and
// read_exact fills the buffer with arbitrary bytes. The contracts below only fix the buffer length.

pub enum SeekFrom {
    Start(u64),
    End(i64),
    Current(i64),
}

#[verifier::external_body]
pub struct File {
    _p: core::marker::PhantomData<u8>,
}

#[verifier::external_body]
pub struct Metadata {
    _p: core::marker::PhantomData<u8>,
}

impl Metadata {
    /// TRUSTED: SOME file size (unconstrained: 0 for the empty file a killed `create` leaves behind)
    #[verifier::external_body]
    pub fn len(&self) -> (r: u64) {
        unimplemented!()
    }
}

impl File {
    #[verifier::external_body]
    pub fn metadata(&self) -> (r: Result<Metadata>) {
        unimplemented!()
    }

    #[verifier::external_body]
    pub fn seek(&mut self, pos: SeekFrom) -> (r: Result<u64>) {
        unimplemented!()
    }

    #[verifier::external_body]
    pub fn read_exact(&mut self, buf: &mut [u8]) -> (r: Result<()>)
        ensures
            final(buf)@.len() == old(buf)@.len(),
    {
        unimplemented!()
    }
}

/// TRUSTED: u64::from_le_bytes returns SOME u64 (the value is deliberately left unconstrained: a truncated
/// file has arbitrary bytes there).
#[verifier::external_body]
pub fn u64_from_le_bytes(b: [u8; 8]) -> (r: u64) {
    u64::from_le_bytes(b)
}
