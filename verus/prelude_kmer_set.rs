// ---- shims used by the segmentation / splitter units ----

/// `ragc_common::Contig`
pub type Contig = Vec<u8>;

/// Shim for `ahash::AHashSet<u64>` (external crate; single-file Verus cannot import it).
/// TRUSTED: `contains` answers membership in an abstract Set<u64> (the set the caller built).
#[verifier::external_body]
#[verifier::reject_recursive_types(T)]
pub struct AHashSet<T> {
    _p: core::marker::PhantomData<T>,
}

impl AHashSet<u64> {
    pub uninterp spec fn view(&self) -> Set<u64>;

    #[verifier::external_body]
    pub fn contains(&self, k: &u64) -> (r: bool)
        ensures
            r == self.view().contains(*k),
    {
        unimplemented!()
    }
}

impl AHashSet<u64> {
    /// TRUSTED (ahash / std HashSet): a new set is empty
    #[verifier::external_body]
    pub fn new() -> (r: AHashSet<u64>)
        ensures
            r.view() == Set::<u64>::empty(),
    {
        unimplemented!()
    }

    /// TRUSTED (ahash / std HashSet): insert adds the value and nothing else
    #[verifier::external_body]
    pub fn insert(&mut self, v: u64) -> (r: bool)
        ensures
            final(self).view() == old(self).view().insert(v),
    {
        unimplemented!()
    }
}

/// TRUSTED (std): `vec.into_iter().collect::<AHashSet<u64>>()` holds exactly the values of the vector
#[verifier::external_body]
pub fn set_from_vec(v: Vec<u64>) -> (r: AHashSet<u64>)
    ensures
        forall|x: u64| r.view().contains(x) <==> exists|k: int| 0 <= k < v@.len() && v@[k] == x,
{
    unimplemented!()
}
