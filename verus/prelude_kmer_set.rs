// ---- shims used by the segmentation / splitter units ----

/// `ragc_common::Contig`
pub type Contig = Vec<u8>;

/// Shim for `ahash::AHashSet<u64>` (external crate; single-file Verus cannot import it).
/// TRUSTED: `contains` answers membership in an abstract Set<u64> (the set the caller built).
#[verifier::external_body]
#[verifier::reject_recursive_types(T)]
pub struct AHashSet<T> {
    _p: core::marker::PhantomData<T>,
}

impl AHashSet<u64> {
    pub uninterp spec fn view(&self) -> Set<u64>;

    #[verifier::external_body]
    pub fn contains(&self, k: &u64) -> (r: bool)
        ensures
            r == self.view().contains(*k),
    {
        unimplemented!()
    }
}
