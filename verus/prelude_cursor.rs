// ---- shims for std::io::Cursor over the footer bytes, and for the real read_varint (contract = Kani O-14v) ----

#[verifier::external_body]
pub struct Cursor {
    _p: core::marker::PhantomData<u8>,
}

impl Cursor {
    /// bytes consumed so far
    pub uninterp spec fn pos(&self) -> int;

    /// total bytes available
    pub uninterp spec fn total(&self) -> int;

    /// TRUSTED (std): read_exact either consumes exactly buf.len() bytes or fails; it never moves backwards.
    #[verifier::external_body]
    pub fn read_exact(&mut self, buf: &mut [u8]) -> (r: Result<()>)
        ensures
            final(buf)@.len() == old(buf)@.len(),
            final(self).total() == old(self).total(),
            r.is_ok() ==> final(self).pos() == old(self).pos() + old(buf)@.len() && final(self).pos() <= final(self).total(),
            r.is_err() ==> final(self).pos() >= old(self).pos(),
    {
        unimplemented!()
    }
}

/// TRUSTED (std): a cursor over a byte vector starts at 0 and ends at its length.
#[verifier::external_body]
pub fn cursor_new(v: &Vec<u8>) -> (c: Cursor)
    ensures
        c.pos() == 0,
        c.total() == v@.len(),
{
    unimplemented!()
}

/// Contract of the REAL ragc_common::varint::read_varint, discharged on the real code by Kani obligation O-14v:
/// on ANY bytes it returns Ok or Err (no panic) and a successful read consumes at least one byte.
#[verifier::external_body]
pub fn read_varint(reader: &mut Cursor) -> (r: Result<(u64, usize)>)
    ensures
        final(reader).total() == old(reader).total(),
        final(reader).pos() >= old(reader).pos(),
        r.is_ok() ==> final(reader).pos() >= old(reader).pos() + 1 && final(reader).pos() <= final(reader).total(),
{
    unimplemented!()
}
