// ---- shim for anyhow::Result (external crate): only "some error value" matters to the contracts ----
#[derive(Debug)]
pub struct AnyErr;

pub type Result<T> = core::result::Result<T, AnyErr>;
