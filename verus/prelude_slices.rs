// ASSUMPTION: 64-bit target (usize is 8 bytes), as on every platform ragc is built for.
global size_of usize == 8;

// Shared shims for slice/Vec operations (trusted where marked; listed in every evidence file).

/// Verified replacement for `*s.iter().max().unwrap()` on a non-empty slice.
/// ASSUMPTION: std's Iterator::max on a non-empty u8 slice returns the maximum element (this function's spec).
pub fn slice_max(s: &[u8]) -> (m: u8)
    requires s@.len() > 0,
    ensures
        forall|i: int| 0 <= i < s@.len() ==> s@[i] <= m,
        exists|i: int| 0 <= i < s@.len() && s@[i] == m,
{
    let mut m = s[0];
    let mut i: usize = 1;
    while i < s.len()
        invariant
            1 <= i <= s@.len(),
            forall|j: int| 0 <= j < i ==> s@[j] <= m,
            exists|j: int| 0 <= j < i && s@[j] == m,
        decreases s@.len() - i,
    {
        if s[i] > m {
            m = s[i];
        }
        i += 1;
    }
    m
}

/// TRUSTED: `<[T]>::to_vec` copies the slice. Used only at T = u8 / u64 (Copy types, Clone == bitwise copy).
pub assume_specification<T: Clone>[ <[T]>::to_vec ](s: &[T]) -> (v: Vec<T>)
    ensures
        v@ == s@,
;
