// ASSUMPTION: 64-bit target (usize is 8 bytes), as on every platform ragc is built for.
global size_of usize == 8;

// Shared shims for slice/Vec operations (trusted where marked; listed in every evidence file).

/// Verified replacement for `*s.iter().max().unwrap()` on a non-empty slice.
/// ASSUMPTION: std's Iterator::max on a non-empty u8 slice returns the maximum element (this function's spec).
pub fn slice_max(s: &[u8]) -> (m: u8)
    requires s@.len() > 0,
    ensures
        forall|i: int| 0 <= i < s@.len() ==> s@[i] <= m,
        exists|i: int| 0 <= i < s@.len() && s@[i] == m,
{
    let mut m = s[0];
    let mut i: usize = 1;
    while i < s.len()
        invariant
            1 <= i <= s@.len(),
            forall|j: int| 0 <= j < i ==> s@[j] <= m,
            exists|j: int| 0 <= j < i && s@[j] == m,
        decreases s@.len() - i,
    {
        if s[i] > m {
            m = s[i];
        }
        i += 1;
    }
    m
}

/// TRUSTED: `<[T]>::to_vec` copies the slice. Used only at T = u8 / u64 (Copy types, Clone == bitwise copy).
pub assume_specification<T: Clone>[ <[T]>::to_vec ](s: &[T]) -> (v: Vec<T>)
    ensures
        v@ == s@,
;

/// Verified replacement for `v[from..].reverse()` (std slice reverse on the tail of a Vec).
/// ASSUMPTION: std's `<[T]>::reverse` reverses the slice in place (this function's spec).
pub fn vec_reverse_from(v: &mut Vec<u8>, from: usize)
    requires
        from <= old(v)@.len(),
    ensures
        final(v)@.len() == old(v)@.len(),
        final(v)@ == old(v)@.subrange(0, from as int) + old(v)@.subrange(from as int, old(v)@.len() as int).reverse(),
{
    let n = v.len();
    let ghost orig = v@;
    let mut lo = from;
    let mut hi = n;
    while hi - lo >= 2
        invariant
            v@.len() == n,
            orig.len() == n,
            from <= lo <= hi <= n,
            lo - from == n - hi,
            forall|i: int| 0 <= i < from ==> v@[i] == orig[i],
            forall|i: int| lo <= i < hi ==> v@[i] == orig[i],
            forall|i: int| from <= i < lo ==> v@[i] == orig[from + (n - 1 - i)],
            forall|i: int| hi <= i < n ==> v@[i] == orig[from + (n - 1 - i)],
        decreases hi - lo,
    {
        let a = v[lo];
        let b = v[hi - 1];
        v.set(lo, b);
        v.set(hi - 1, a);
        lo += 1;
        hi -= 1;
    }
    proof {
        let tail = orig.subrange(from as int, n as int);
        assert forall|i: int| 0 <= i < n implies v@[i] == (orig.subrange(0, from as int) + tail.reverse())[i] by {
            if i >= from {
                assert(tail.reverse()[i - from] == tail[tail.len() - 1 - (i - from)]);
            }
        }
        assert(v@ =~= orig.subrange(0, from as int) + tail.reverse());
    }
}
