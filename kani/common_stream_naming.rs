//@@ crate: ragc-common
//@@ inject: ragc-common/src/stream_naming.rs
//@@ module: stream_naming
// Kani contracts for ragc-common/src/stream_naming.rs.

use super::*;

const ALPHABET: &[u8; 64] = b"0123456789ABCDEFGHIJKLMNOPQRSTUVWXYZabcdefghijklmnopqrstuvwxyz_#";

//@ obligation: O-02d
//@ props: C02
//@ kind: bounded
//@ bound: n < 2^18 (3 base-64 digits); full u32 domain does not terminate in 15 min (String::push UTF-8 machinery)
//@ tier: thorough
//@ functions: stream_naming::int_to_base64
//@ timeout: 1500
//@ claim: int_to_base64(n) is the little-endian base-64 rendering of n over 0-9A-Za-z_# with no superfluous digits ("0" for zero), for every u32 (loop bounded by operand width: at most 6 digits)
#[kani::proof]
#[kani::unwind(5)]
fn o02d_int_to_base64_all_u32() {
    let n: u32 = kani::any();
    kani::assume(n < (1u32 << 18));
    let s = int_to_base64(n);
    let b = s.as_bytes();
    let expect_len: usize = if n < 64 { 1 } else if n < 64 * 64 { 2 } else if n < 64 * 64 * 64 { 3 } else if n < 64 * 64 * 64 * 64 { 4 } else if (n as u64) < 64u64 * 64 * 64 * 64 * 64 { 5 } else { 6 };
    kani::cover!(expect_len == 3, "3-digit ids reachable");
    kani::assert(b.len() == expect_len, "O-02d: minimal number of base-64 digits");
    let i: usize = kani::any();
    kani::assume(i < expect_len);
    let digit = ((n as u64 >> (6 * i)) & 63) as usize;
    kani::assert(b[i] == ALPHABET[digit], "O-02d: digit i (least significant first) taken from the alphabet 0-9A-Za-z_#");
}
