//@@ crate: ragc-core
//@@ inject: ragc-core/src/genome_io.rs
//@@ module: genome_io
// Kani contract for the nucleotide conversion table CNV_NUM (ragc-core/src/genome_io.rs).

use super::*;

/// the IUPAC nucleotide alphabet in the order of the numeric codes 0..=15 (AGC's cnv_num)
const IUPAC: [u8; 16] = *b"ACGTNRYSWKMBDHVU";

fn code_of(letter: u8) -> Option<u8> {
    let mut i = 0usize;
    while i < 16 {
        if IUPAC[i] == letter {
            return Some(i as u8);
        }
        i += 1;
    }
    None
}

//@ obligation: O-01c
//@ props: C01 C16 C19
//@ kind: complete
//@ functions: genome_io::CNV_NUM
//@ claim: all 128 entries: code -> letter is the IUPAC order ACGTNRYSWKMBDHVU; each of those 16 letters maps to its own code in BOTH cases (case folding by table); decode(encode(L)) == upper(L); every other ASCII letter maps to 30 (unknown), never to a code 0..=15
#[kani::proof]
#[kani::unwind(18)]
fn o01c_cnv_num_table() {
    let c: u8 = kani::any();
    kani::assume(c < 128);
    if c < 16 {
        kani::assert(CNV_NUM[c as usize] == IUPAC[c as usize], "O-01c: code -> letter follows ACGTNRYSWKMBDHVU");
    }
    let is_upper = c >= b'A' && c <= b'Z';
    let is_lower = c >= b'a' && c <= b'z';
    if is_upper || is_lower {
        let up = if is_lower { c - 32 } else { c };
        match code_of(up) {
            Some(code) => {
                kani::assert(CNV_NUM[c as usize] == code, "O-01c: an IUPAC letter (either case) maps to its code");
                kani::assert(CNV_NUM[CNV_NUM[c as usize] as usize] == up, "O-01c: decode(encode(L)) == upper(L)");
            }
            None => {
                kani::assert(CNV_NUM[c as usize] == 30, "O-01c: a non-IUPAC letter maps to the unknown code 30");
            }
        }
        kani::assert(CNV_NUM[c as usize] == CNV_NUM[(c ^ 32) as usize], "O-01c: upper and lower case agree");
    }
}
