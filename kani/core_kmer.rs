//@@ crate: ragc-core
//@@ inject: ragc-core/src/kmer.rs
//@@ module: kmer
// Kani contracts for ragc-core/src/kmer.rs (child module of `ragc_core::kmer`; private fields reachable).
//
// Representation spec (written from the property, independent of the shifting code):
//   a k-mer word holds symbol i (0-based, i < k) in bits [62-2i, 63-2i]; all bits below 64-2k are 0.
//   pack(W)    : symbol i of the word is W[i]
//   pack(rc W) : symbol i of the word is 3 - W[k-1-i]
// State invariant I(k):  cur_size == k  /\  low bits of kmer_dir zero  /\  kmer_rc == pack(rc window(kmer_dir)).
// Fill invariant  F(j):  cur_size == j <= k, kmer_dir holds j symbols, kmer_rc == pack(rc of those j symbols).  F(k) == I(k).
//
// Every harness is a STEP proof over ALL k in 1..=32 and ALL 2^64 words. Lifting the steps to whole
// sequences is induction on sequence length, which CBMC cannot perform: it is named as an assumption.

use super::*;

fn sym(word: u64, i: u32) -> u64 {
    (word >> (62 - 2 * i)) & 3
}

fn low_bits_zero(word: u64, k: u32) -> bool {
    if k >= 32 {
        true
    } else if k == 0 {
        word == 0
    } else {
        word & ((1u64 << (64 - 2 * k)) - 1) == 0
    }
}

fn any_k() -> u32 {
    let k: u32 = kani::any();
    kani::assume(k >= 1 && k <= 32);
    k
}

//@ obligation: O-20d-spec
//@ props: C20 C11
//@ kind: complete
//@ functions: kmer::reverse_complement_kmer kmer::reverse_complement
//@ claim: for all k in 0..=32 and all words: symbol i of reverse_complement_kmer(x,k) is 3 - symbol (k-1-i) of x, and bits below 64-2k are zero
#[kani::proof]
#[kani::unwind(34)]
fn o20d_rc_kmer_matches_symbol_spec() {
    let k: u32 = kani::any();
    kani::assume(k <= 32);
    let x: u64 = kani::any();
    let r = reverse_complement_kmer(x, k);
    kani::assert(low_bits_zero(r, k), "O-20d: result has no bits below the k-mer");
    let i: u32 = kani::any();
    kani::assume(i < k);
    kani::cover!(k == 32 && i == 31, "k=32 (no spare bits) reachable");
    kani::cover!(k == 1, "k=1 reachable");
    kani::assert(sym(r, i) == 3 - sym(x, k - 1 - i), "O-20d: symbol i is the complement of symbol k-1-i");
}

//@ obligation: O-20d-inv
//@ props: C20
//@ kind: complete
//@ functions: kmer::reverse_complement_kmer
//@ claim: reverse_complement_kmer is an involution on words with zero low bits, all k in 1..=32 (k=32: shift 0)
#[kani::proof]
#[kani::unwind(34)]
fn o20d_rc_kmer_involution() {
    let k = any_k();
    let x: u64 = kani::any();
    kani::assume(low_bits_zero(x, k));
    kani::cover!(k == 32, "k=32 reachable");
    kani::assert(reverse_complement_kmer(reverse_complement_kmer(x, k), k) == x, "O-20d: reverse complement twice is the identity");
}

//@ obligation: O-20a
//@ props: C20 C11 C18 C10
//@ kind: complete
//@ functions: kmer::Kmer::insert kmer::Kmer::insert_canonical kmer::Kmer::data kmer::Kmer::data_canonical kmer::Kmer::is_dir_oriented kmer::canonical_kmer
//@ claim: from any full state satisfying I(k), insert(sym) re-establishes I(k); data()==data_canonical()==min(dir,rc)==canonical_kmer(dir,k)==canonical_kmer(rc,k) (strand symmetry); is_dir_oriented() <=> dir <= rc
//@ assumes: induction over sequence length lifts this step to every position of every sequence (meta-step, not discharged)
#[kani::proof]
#[kani::unwind(34)]
fn o20a_insert_preserves_invariant_and_symmetry() {
    let k = any_k();
    let dir: u64 = kani::any();
    kani::assume(low_bits_zero(dir, k));
    let rc = reverse_complement_kmer(dir, k);
    let s: u64 = kani::any();
    kani::assume(s < 4);
    let mut km = Kmer::from_values(dir, rc, k, k, KmerMode::Canonical);
    km.insert(s);
    kani::cover!(k == 32, "k=32 reachable");
    kani::cover!(km.kmer_dir > km.kmer_rc, "reverse strand smaller reachable");
    kani::cover!(km.kmer_dir == km.kmer_rc, "palindrome reachable");
    kani::assert(km.cur_size == k && km.is_full(), "O-20a: window stays full");
    kani::assert(low_bits_zero(km.kmer_dir, k), "O-20a: forward word keeps zero low bits");
    kani::assert(km.kmer_rc == reverse_complement_kmer(km.kmer_dir, k), "O-20a: reverse word is the reverse complement of the forward word");
    let mn = if km.kmer_dir <= km.kmer_rc { km.kmer_dir } else { km.kmer_rc };
    kani::assert(km.data() == mn, "O-20a: data() is the smaller of forward and reverse packings");
    kani::assert(km.data_canonical() == mn, "O-20a: data_canonical() is the smaller packing");
    kani::assert(canonical_kmer(km.kmer_dir, k) == mn, "O-20a: sliding value equals canonical_kmer of the window");
    kani::assert(canonical_kmer(km.kmer_rc, k) == mn, "O-20a: canonical value of the reverse-complemented window is the same");
    kani::assert(km.is_dir_oriented() == (km.kmer_dir <= km.kmer_rc), "O-20a: direction flag true exactly when forward <= reverse");
}

//@ obligation: O-20b
//@ props: C20 C18
//@ kind: complete
//@ functions: kmer::Kmer::insert kmer::Kmer::insert_canonical kmer::Kmer::new
//@ claim: sliding one base over a full window gives, symbol for symbol, the packing of the new window (old symbols 1..k-1 then the new base), and equals a Kmer rebuilt from scratch by k inserts; all k, all windows
#[kani::proof]
#[kani::unwind(34)]
fn o20b_slide_equals_from_scratch() {
    let k = any_k();
    let w: u64 = kani::any();
    kani::assume(low_bits_zero(w, k));
    let s: u64 = kani::any();
    kani::assume(s < 4);
    let mut a = Kmer::from_values(w, reverse_complement_kmer(w, k), k, k, KmerMode::Canonical);
    a.insert(s);
    // independent symbol-level spec of the new window
    let i: u32 = kani::any();
    kani::assume(i < k);
    let expect = if i + 1 < k { sym(w, i + 1) } else { s };
    kani::assert(sym(a.kmer_dir, i) == expect, "O-20b: forward word holds the shifted window");
    let m = k - 1 - i; // position in the new window whose complement sits at position i of the reverse word
    let new_m = if m + 1 < k { sym(w, m + 1) } else { s };
    kani::assert(sym(a.kmer_rc, i) == 3 - new_m, "O-20b: reverse word holds the reverse complement of the shifted window");
    kani::assert(low_bits_zero(a.kmer_dir, k) && low_bits_zero(a.kmer_rc, k), "O-20b: no bits below the k-mer");
    // from scratch through the real fill path
    let mut b = Kmer::new(k, KmerMode::Canonical);
    let mut j = 1u32;
    while j < k {
        b.insert(sym(w, j));
        j += 1;
    }
    b.insert(s);
    kani::cover!(k == 32, "k=32 reachable");
    kani::assert(b.is_full(), "O-20b: k inserts fill the window");
    kani::assert(a.kmer_dir == b.kmer_dir, "O-20b: slide == from scratch (forward)");
    kani::assert(a.kmer_rc == b.kmer_rc, "O-20b: slide == from scratch (reverse)");
    kani::assert(a.data() == b.data(), "O-20b: slide == from scratch (canonical value)");
}

//@ obligation: O-20c
//@ props: C20 C18 C10
//@ kind: complete
//@ functions: kmer::Kmer::insert kmer::Kmer::insert_canonical kmer::Kmer::is_full
//@ claim: fill phase: from any state satisfying F(j), j<k, insert(sym) gives F(j+1) with symbol j == sym and symbols 0..j unchanged; is_full() <=> j+1==k. F(0) is Kmer::new()
//@ assumes: induction over the first k inserts (meta-step, not discharged)
#[kani::proof]
#[kani::unwind(34)]
fn o20c_fill_phase_step() {
    let k = any_k();
    let j: u32 = kani::any();
    kani::assume(j < k);
    let dir: u64 = kani::any();
    kani::assume(low_bits_zero(dir, j));
    let rc = reverse_complement_kmer(dir, j);
    let s: u64 = kani::any();
    kani::assume(s < 4);
    let mut km = Kmer::from_values(dir, rc, k, j, KmerMode::Canonical);
    if j == 0 {
        let fresh = Kmer::new(k, KmerMode::Canonical);
        kani::assert(fresh.kmer_dir == 0 && fresh.kmer_rc == 0 && fresh.cur_size == 0 && fresh.max_size == k,
            "O-20c: new() is the empty state F(0)");
        kani::assert(fresh.mask == km.mask && fresh.shift == km.shift, "O-20c: new() and from_values() agree on mask/shift");
    }
    km.insert(s);
    kani::cover!(j + 1 == k && k == 32, "completing a 32-mer reachable");
    kani::cover!(j == 0, "first insert reachable");
    kani::assert(km.cur_size == j + 1, "O-20c: size grows by one");
    kani::assert(km.is_full() == (j + 1 == k), "O-20c: full exactly after k inserts");
    kani::assert(low_bits_zero(km.kmer_dir, j + 1), "O-20c: forward word has j+1 symbols");
    kani::assert(sym(km.kmer_dir, j) == s, "O-20c: new symbol lands at position j");
    let i: u32 = kani::any();
    kani::assume(i < j);
    kani::assert(sym(km.kmer_dir, i) == sym(dir, i), "O-20c: earlier symbols unchanged");
    kani::assert(km.kmer_rc == reverse_complement_kmer(km.kmer_dir, j + 1), "O-20c: reverse word is the reverse complement of the j+1 symbols");
}

//@ obligation: O-20e
//@ props: C20 C10
//@ kind: complete
//@ functions: kmer::Kmer::reset kmer::Kmer::new
//@ claim: reset() from ANY state yields exactly the Kmer::new(k) state (window restarts), all k
#[kani::proof]
fn o20e_reset_is_new() {
    let k = any_k();
    let mut km = Kmer::from_values(kani::any(), kani::any(), k, kani::any(), KmerMode::Canonical);
    km.reset();
    let fresh = Kmer::new(k, KmerMode::Canonical);
    kani::assert(km.kmer_dir == fresh.kmer_dir && km.kmer_rc == fresh.kmer_rc && km.cur_size == fresh.cur_size,
        "O-20e: reset() restores the empty window");
    kani::assert(km.max_size == fresh.max_size && km.mask == fresh.mask && km.shift == fresh.shift,
        "O-20e: reset() keeps k, mask and shift");
    kani::assert(!km.is_full(), "O-20e: an empty window is not full");
}

//@ obligation: O-20f
//@ props: C20 C01
//@ kind: complete
//@ functions: kmer::reverse_complement
//@ claim: base complement: 0<->3, 1<->2, involution on 0..3; every other value maps to 4
#[kani::proof]
fn o20f_base_complement_table() {
    let b: u64 = kani::any();
    let r = reverse_complement(b);
    if b < 4 {
        kani::assert(r == 3 - b, "O-20f: complement of ACGT code b is 3-b");
        kani::assert(reverse_complement(r) == b, "O-20f: involution on ACGT");
    } else {
        kani::assert(r == 4, "O-20f: non-ACGT maps to 4");
    }
}

//@ obligation: O-20g
//@ props: C20 C10
//@ kind: complete
//@ functions: kmer::Kmer::data kmer::Kmer::is_full
//@ claim: in every state satisfying I(k) the canonical value data() is never u64::MAX (so it can never be confused with the MISSING k-mer sentinel); is_full() <=> cur_size == max_size. Discharges the Kmer::data / is_full contracts assumed by Verus obligation O-10
#[kani::proof]
#[kani::unwind(34)]
fn o20g_canonical_never_missing_sentinel() {
    let k = any_k();
    let dir: u64 = kani::any();
    kani::assume(low_bits_zero(dir, k));
    let rc = reverse_complement_kmer(dir, k);
    let cur: u32 = kani::any();
    kani::assume(cur <= k);
    let km = Kmer::from_values(dir, rc, k, cur, KmerMode::Canonical);
    kani::assert(km.is_full() == (cur == k), "O-20g: is_full() is cur_size == max_size");
    if cur == k {
        kani::cover!(k == 32 && dir == u64::MAX, "all-T 32-mer reachable");
        kani::assert(km.data() != u64::MAX, "O-20g: canonical k-mer value is never the MISSING sentinel");
    }
}
