//@@ crate: ragc-common
//@@ inject: ragc-common/src/collection.rs
//@@ module: collection
// Kani contracts for ragc-common/src/collection.rs (child module of `ragc_common::collection`).
// `super::*` is the real code; nothing is copied.

use super::*;

// anyhow::bail!/format_err! build a Backtrace whose drop glue dominates CBMC time (>20 min measured).
// The stub replaces ONLY the construction of the error value on paths where the contract says no
// error may occur: reaching it is reported as a failure, not assumed away.
#[allow(dead_code)]
fn stub_format_err_must_not_happen(_args: core::fmt::Arguments<'_>) -> anyhow::Error {
    kani::assert(false, "an anyhow error was constructed on a path the contract says is error-free");
    kani::assume(false);
    unreachable!()
}

/// Independent spec of the AGC collection prefix-varint, written from the format description:
///   < 2^7                         : 0xxxxxxx
///   < 2^7+2^14                    : 10xxxxxx xxxxxxxx                (value - 2^7, big-endian)
///   < 2^7+2^14+2^21               : 110xxxxx xxxxxxxx xxxxxxxx       (value - 2^7 - 2^14)
///   < 2^7+2^14+2^21+2^28          : 1110xxxx + 3 bytes               (value - ... )
///   otherwise                     : 11110000 + 4 bytes big-endian    (value - sum)
fn spec_cvarint(num: u32) -> ([u8; 5], usize) {
    const T1: u32 = 1 << 7;
    const T2: u32 = T1 + (1 << 14);
    const T3: u32 = T2 + (1 << 21);
    const T4: u32 = T3 + (1 << 28);
    if num < T1 {
        ([num as u8, 0, 0, 0, 0], 1)
    } else if num < T2 {
        let r = num - T1;
        ([0x80 | (r >> 8) as u8, r as u8, 0, 0, 0], 2)
    } else if num < T3 {
        let r = num - T2;
        ([0xC0 | (r >> 16) as u8, (r >> 8) as u8, r as u8, 0, 0], 3)
    } else if num < T4 {
        let r = num - T3;
        ([0xE0 | (r >> 24) as u8, (r >> 16) as u8, (r >> 8) as u8, r as u8, 0], 4)
    } else {
        let r = num - T4;
        ([0xF0, (r >> 24) as u8, (r >> 16) as u8, (r >> 8) as u8, r as u8], 5)
    }
}

//@ obligation: O-02c-enc
//@ props: C02 C03 C18
//@ kind: complete
//@ functions: collection::CollectionVarInt::encode
//@ claim: encode(num) appends exactly the format-spec bytes for every u32
#[kani::proof]
fn o02c_cvarint_encode_layout() {
    let num: u32 = kani::any();
    let mut data: Vec<u8> = Vec::new();
    data.push(0x77); // pre-existing content must be preserved
    CollectionVarInt::encode(&mut data, num);
    let (spec, n) = spec_cvarint(num);
    kani::cover!(n == 5, "5-byte form reachable");
    kani::cover!(n == 1, "1-byte form reachable");
    kani::assert(data.len() == 1 + n, "O-02c-enc: appends exactly the spec length");
    kani::assert(data[0] == 0x77, "O-02c-enc: existing bytes preserved");
    let mut i = 0usize;
    while i < 5 {
        if i < n {
            kani::assert(data[1 + i] == spec[i], "O-02c-enc: byte equals the format-spec byte");
        }
        i += 1;
    }
}

//@ obligation: O-02c-dec
//@ props: C02 C03 C18
//@ kind: complete
//@ functions: collection::CollectionVarInt::decode
//@ stubs: anyhow::__private::format_err
//@ claim: decode(spec_bytes(num) ++ tail) == num and consumes exactly the encoded bytes, every u32
#[kani::proof]
#[kani::stub(anyhow::__private::format_err, stub_format_err_must_not_happen)]
fn o02c_cvarint_decode_inverts_spec() {
    let num: u32 = kani::any();
    let (spec, n) = spec_cvarint(num);
    let tail: u8 = kani::any();
    let mut buf = [0u8; 6];
    let mut i = 0usize;
    while i < 5 {
        if i < n {
            buf[i] = spec[i];
        }
        i += 1;
    }
    buf[n] = tail;
    let mut ptr: &[u8] = &buf[..n + 1];
    match CollectionVarInt::decode(&mut ptr) {
        Ok(got) => {
            kani::assert(got == num, "O-02c-dec: decode returns the encoded value");
            kani::assert(ptr.len() == 1, "O-02c-dec: decode consumes exactly the encoded bytes");
            kani::assert(ptr[0] == tail, "O-02c-dec: the next byte is left in place");
        }
        Err(_) => kani::assert(false, "O-02c-dec: well-formed input must decode"),
    }
}

#[allow(dead_code)]
fn stub_format_err_any(_args: core::fmt::Arguments<'_>) -> anyhow::Error {
    // Used only by totality harnesses: the error VALUE is irrelevant, only that an Err is returned
    // instead of a panic. The path is cut after the constructor is reached.
    kani::assume(false);
    unreachable!()
}

//@ obligation: O-14c
//@ props: C14 C18
//@ kind: complete
//@ functions: collection::CollectionVarInt::decode
//@ stubs: anyhow::__private::format_err
//@ claim: every strict prefix of a valid encoding (what truncation leaves) is rejected with Err: no panic, no overflow, no out-of-bounds read
#[kani::proof]
#[kani::stub(anyhow::__private::format_err, stub_format_err_any)]
fn o14_cvarint_decode_rejects_truncation() {
    let num: u32 = kani::any();
    let (spec, n) = spec_cvarint(num);
    let cut: usize = kani::any();
    kani::assume(cut < n);
    kani::cover!(cut == 4, "cut inside a 5-byte form reachable");
    kani::cover!(cut == 0, "empty input reachable");
    let mut ptr: &[u8] = &spec[..cut];
    let r = CollectionVarInt::decode(&mut ptr);
    // With the error constructor cut off (stub), any path that returns here returned Ok.
    kani::assert(r.is_err(), "O-14c: a truncated encoding must not decode successfully");
}

//@ obligation: O-03a
//@ props: C03 C18
//@ kind: complete
//@ functions: collection::zigzag_encode collection::zigzag_decode
//@ claim: zigzag_decode(zigzag_encode(x,p),p)==x for all x,p < 2^32 (the only range callers pass), no overflow
#[kani::proof]
fn o03a_zigzag_pred_roundtrip() {
    let x: u32 = kani::any();
    let p: u32 = kani::any();
    let e = zigzag_encode(x as u64, p as u64);
    kani::cover!(x < p, "below-prediction branch");
    kani::cover!(x >= p && (x as u64) < 2 * (p as u64), "near-prediction branch");
    kani::cover!((x as u64) >= 2 * (p as u64) && p > 0, "far branch");
    kani::assert(zigzag_decode(e, p as u64) == x as u64, "O-03a: predictive zigzag round trip");
    // What the descriptor codec relies on when it casts the code to u32: it fits whenever the
    // prediction is <= 2^31. Both call sites satisfy that: prev_in_group_id+1 with prev an i32 >= 0,
    // and segment_size + kmer_length. (For p > 2^31 and x < p the code can need 33 bits; that is
    // outside what callers pass and is not claimed.)
    if (p as u64) <= (1u64 << 31) {
        kani::assert(e <= u32::MAX as u64, "O-03a: code fits in u32 when prediction <= 2^31");
    }
    kani::assert((e == 0) == (x == p), "O-03a: code 0 iff value equals prediction");
}

//@ obligation: O-03a-i64
//@ props: C03 C18
//@ kind: complete
//@ functions: collection::zigzag_encode_i64 collection::zigzag_decode_i64
//@ claim: zigzag_decode_i64(zigzag_encode_i64(x))==x for |x| < 2^62 (no overflow in 2*x)
#[kani::proof]
fn o03a_zigzag_i64_roundtrip() {
    let x: i64 = kani::any();
    kani::assume(x > -(1i64 << 62) && x < (1i64 << 62));
    kani::assert(zigzag_decode_i64(zigzag_encode_i64(x)) == x, "O-03a-i64: signed zigzag round trip");
}

// NOTE: bounded CBMC harnesses over CollectionV3 itself (descriptor-table round trip, prepare_for_decompression)
// were tried and dropped: HashMap<String, _> (SipHash over symbolic strings) and the f64 growth policy of
// set_in_group_id do not terminate within 50 min even for one contig with three segments. prepare_for_decompression
// is instead under a Verus contract (contracts/collection_open.spec); the descriptor table is listed as not covered.
// O-03s (bounded CBMC check of the predictor table get/set) ran out of memory (683 s, OOM) and was dropped; the table
// functions are now verified unbounded by Verus (O-03t-get / O-03t-set in contracts/collection_details.spec).
