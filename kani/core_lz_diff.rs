//@@ crate: ragc-core
//@@ inject: ragc-core/src/lz_diff.rs
//@@ module: lz_diff
// Kani contracts for the token emitters / parsers of ragc-core/src/lz_diff.rs (LZ-diff V2 text).
// Child module of `ragc_core::lz_diff`: the private methods are the real ones.
//
// Token grammar taken from the property statement / format description (NOT from the code):
//   literal  : one byte  'A' + code            code in {0..=15, 30}
//   copy-ref : '!'                               (literal equal to reference[pred_pos])
//   N-run    : 30 <decimal len-4> 4
//   match    : <signed decimal ref_pos - pred_pos> [ ',' <decimal len - min_match_len> ] '.'
//   never the pack separator 0xFF.

use super::*;

const SEP: u8 = 0xFF;

fn any_code() -> u8 {
    // the symbol codes ragc uses: 0..=15 (IUPAC) and 30 (unknown letter)
    let c: u8 = kani::any();
    kani::assume(c <= 15 || c == 30);
    c
}

fn mk(min_match: u32) -> LZDiff {
    LZDiff::new(min_match)
}

//@ obligation: O-09a
//@ props: C09 C16 C01
//@ kind: complete
//@ functions: lz_diff::LZDiff::encode_literal lz_diff::LZDiff::is_literal lz_diff::LZDiff::decode_literal
//@ claim: for every symbol code ragc uses (0..=15 and 30) the emitted literal byte is recognised as a literal by the decoder and decodes to the same code; it is not '!' , not the N-run starter, not 0xFF
#[kani::proof]
fn o09a_literal_roundtrip_all_codes() {
    let lz = mk(20);
    let c = any_code();
    let mut out: Vec<u8> = Vec::new();
    lz.encode_literal(c, &mut out);
    kani::cover!(c == 30, "unknown-letter code 30 reachable");
    kani::cover!(c == 15, "code 15 reachable");
    kani::assert(out.len() == 1, "O-09a: a literal is one byte");
    let b = out[0];
    kani::assert(b == b'A' + c, "O-09a: literal byte is 'A' + code");
    kani::assert(b != SEP && b != N_RUN_STARTER_CODE && b != b'!', "O-09a: literal byte collides with no other token");
    kani::assert(lz.is_literal(b), "O-09a: decoder recognises the emitted literal");
    kani::assert(lz.decode_literal(b) == c, "O-09a: decoder returns the encoded code");
}

//@ obligation: O-09a-tok
//@ props: C09
//@ kind: complete
//@ functions: lz_diff::LZDiff::is_literal
//@ claim: token classes are disjoint at the first byte: digits, '-', ',', '.', the N-run starter 30, N code 4 and 0xFF are never literals; '!' is
#[kani::proof]
fn o09a_token_classes_disjoint() {
    let lz = mk(20);
    let b: u8 = kani::any();
    if (b >= b'0' && b <= b'9') || b == b'-' || b == b',' || b == b'.' || b == N_RUN_STARTER_CODE || b == N_CODE || b == SEP {
        kani::assert(!lz.is_literal(b), "O-09a-tok: match / N-run / separator bytes are not literals");
    }
    kani::assert(lz.is_literal(b'!'), "O-09a-tok: '!' is a (copy-reference) literal");
    kani::assert(lz.decode_literal(b'!') == b'!', "O-09a-tok: '!' decodes to the copy-reference marker");
}

// The decimal codec (append_int/read_int), N-run and match tokens are proved UNBOUNDED in Verus
// (contracts/lz_tokens.spec, obligations O-09b, O-09b-r, O-09n, O-09n-d, O-09m, O-09m-d and their round-trip theorems).
// A full-domain CBMC proof of the same functions does not terminate in 10 min (22 64-bit div/mod circuits), so
// only this small bounded stand-in is kept here, as a counterexample source for the Verus obligations.

// O-09b-k (bounded CBMC round trip of the decimal codec, |x| <= 999) was removed: it needs > 15 min under load (64-bit
// div/mod circuits) and is subsumed by the unbounded Verus obligations O-09b / O-09b-r / O-09b-rt.

//@ obligation: O-18n
//@ props: C18 C09
//@ kind: complete
//@ functions: lz_diff::LZDiff::new
//@ claim: LZDiff::new(min_match_len) neither overflows nor shifts out of range for EVERY min_match_len >= 4 (key_len = min_match_len - 3 >= 1); key_mask has exactly 2*key_len low bits set, all 64 when key_len >= 32
#[kani::proof]
fn o18n_lzdiff_new_no_overflow() {
    let mm: u32 = kani::any();
    kani::assume(mm >= 4);
    let lz = LZDiff::new(mm);
    kani::cover!(mm == 35, "key_len == 32 reachable");
    kani::cover!(mm == 34, "key_len == 31 reachable");
    kani::assert(lz.key_len == mm - 3, "O-18n: key_len = min_match_len - HASHING_STEP + 1");
    kani::assert(lz.min_match_len == mm, "O-18n: min_match_len stored");
    if lz.key_len >= 32 {
        kani::assert(lz.key_mask == u64::MAX, "O-18n: full mask for key_len >= 32");
    } else {
        kani::assert(lz.key_mask == (1u64 << (2 * lz.key_len)) - 1, "O-18n: mask has 2*key_len low bits");
    }
}

// (A bounded CBMC harness for LZDiff::estimate over a fixed 24-base reference and targets up to 12 symbols did not
// terminate in 40 min and was dropped; estimate is proved unbounded in Verus, obligation O-18e.)

#[allow(dead_code)]
fn stub_eprint(_args: core::fmt::Arguments<'_>) {}
