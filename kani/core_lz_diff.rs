//@@ crate: ragc-core
//@@ inject: ragc-core/src/lz_diff.rs
//@@ module: lz_diff
// Kani contracts for the token emitters / parsers of ragc-core/src/lz_diff.rs (LZ-diff V2 text).
// Child module of `ragc_core::lz_diff`: the private methods are the real ones.
//
// Token grammar taken from the property statement / format description (NOT from the code):
//   literal  : one byte  'A' + code            code in {0..=15, 30}
//   copy-ref : '!'                               (literal equal to reference[pred_pos])
//   N-run    : 30 <decimal len-4> 4
//   match    : <signed decimal ref_pos - pred_pos> [ ',' <decimal len - min_match_len> ] '.'
//   never the pack separator 0xFF.

use super::*;

const SEP: u8 = 0xFF;

fn any_code() -> u8 {
    // the symbol codes ragc uses: 0..=15 (IUPAC) and 30 (unknown letter)
    let c: u8 = kani::any();
    kani::assume(c <= 15 || c == 30);
    c
}

fn mk(min_match: u32) -> LZDiff {
    LZDiff::new(min_match)
}

//@ obligation: O-09a
//@ props: C09 C16 C01
//@ kind: complete
//@ functions: lz_diff::LZDiff::encode_literal lz_diff::LZDiff::is_literal lz_diff::LZDiff::decode_literal
//@ claim: for every symbol code ragc uses (0..=15 and 30) the emitted literal byte is recognised as a literal by the decoder and decodes to the same code; it is not '!' , not the N-run starter, not 0xFF
#[kani::proof]
fn o09a_literal_roundtrip_all_codes() {
    let lz = mk(20);
    let c = any_code();
    let mut out: Vec<u8> = Vec::new();
    lz.encode_literal(c, &mut out);
    kani::cover!(c == 30, "unknown-letter code 30 reachable");
    kani::cover!(c == 15, "code 15 reachable");
    kani::assert(out.len() == 1, "O-09a: a literal is one byte");
    let b = out[0];
    kani::assert(b == b'A' + c, "O-09a: literal byte is 'A' + code");
    kani::assert(b != SEP && b != N_RUN_STARTER_CODE && b != b'!', "O-09a: literal byte collides with no other token");
    kani::assert(lz.is_literal(b), "O-09a: decoder recognises the emitted literal");
    kani::assert(lz.decode_literal(b) == c, "O-09a: decoder returns the encoded code");
}

//@ obligation: O-09a-tok
//@ props: C09
//@ kind: complete
//@ functions: lz_diff::LZDiff::is_literal
//@ claim: token classes are disjoint at the first byte: digits, '-', ',', '.', the N-run starter 30, N code 4 and 0xFF are never literals; '!' is
#[kani::proof]
fn o09a_token_classes_disjoint() {
    let lz = mk(20);
    let b: u8 = kani::any();
    if (b >= b'0' && b <= b'9') || b == b'-' || b == b',' || b == b'.' || b == N_RUN_STARTER_CODE || b == N_CODE || b == SEP {
        kani::assert(!lz.is_literal(b), "O-09a-tok: match / N-run / separator bytes are not literals");
    }
    kani::assert(lz.is_literal(b'!'), "O-09a-tok: '!' is a (copy-reference) literal");
    kani::assert(lz.decode_literal(b'!') == b'!', "O-09a-tok: '!' decodes to the copy-reference marker");
}

/// digits-only (optionally one leading '-') and never 0xFF
fn check_decimal_alphabet(buf: &Vec<u8>, from: usize) {
    let mut i = from;
    while i < buf.len() {
        let b = buf[i];
        let ok = (b >= b'0' && b <= b'9') || (i == from && b == b'-');
        kani::assert(ok, "O-09b: append_int emits only decimal digits and an optional leading '-'");
        i += 1;
    }
}

//@ obligation: O-09b
//@ props: C09 C18
//@ kind: complete
//@ functions: lz_diff::LZDiff::append_int lz_diff::LZDiff::read_int
//@ claim: for every x with |x| <= 2^32 (callers pass differences of u32 positions / lengths): read_int(append_int(x) ++ non-digit) == (x, number of bytes emitted); output is digits with optional leading '-'; no overflow
#[kani::proof]
#[kani::unwind(13)]
fn o09b_int_text_roundtrip() {
    let lz = mk(20);
    let x: i64 = kani::any();
    kani::assume(x >= -(1i64 << 32) && x <= (1i64 << 32));
    let term: u8 = kani::any();
    kani::assume(term == b',' || term == b'.' || term == N_CODE);
    let mut buf: Vec<u8> = Vec::new();
    buf.push(b'Q'); // pre-existing content
    lz.append_int(&mut buf, x);
    let n = buf.len() - 1;
    kani::cover!(x == -(1i64 << 32), "most negative value reachable");
    kani::cover!(n == 11, "11-byte rendering reachable");
    kani::assert(buf[0] == b'Q', "O-09b: append_int preserves existing bytes");
    kani::assert(n >= 1 && n <= 11, "O-09b: 1..=11 bytes");
    check_decimal_alphabet(&buf, 1);
    buf.push(term);
    let (got, used) = lz.read_int(&buf[1..]);
    kani::assert(got == x, "O-09b: read_int returns the value append_int wrote");
    kani::assert(used == n, "O-09b: read_int stops at the first non-digit and reports the bytes consumed");
}

//@ obligation: O-09n
//@ props: C09 C18
//@ kind: complete
//@ functions: lz_diff::LZDiff::encode_nrun lz_diff::LZDiff::decode_nrun
//@ claim: for every run length 4..=2^31: decode_nrun(encode_nrun(len)) == (len, bytes emitted); bytes are 30, digits, 4 (never 0xFF)
#[kani::proof]
#[kani::unwind(13)]
fn o09n_nrun_roundtrip() {
    let lz = mk(20);
    let len: u32 = kani::any();
    kani::assume(len >= MIN_NRUN_LEN && len <= (1u32 << 31));
    let mut buf: Vec<u8> = Vec::new();
    lz.encode_nrun(len, &mut buf);
    let n = buf.len();
    kani::cover!(len == 4, "shortest run reachable");
    kani::assert(n >= 3, "O-09n: starter, >=1 digit, suffix");
    kani::assert(buf[0] == N_RUN_STARTER_CODE, "O-09n: N-run starts with code 30");
    kani::assert(buf[n - 1] == N_CODE, "O-09n: N-run ends with N code 4");
    let mut i = 1usize;
    while i + 1 < n {
        kani::assert(buf[i] >= b'0' && buf[i] <= b'9', "O-09n: run length is plain decimal");
        i += 1;
    }
    let (got, used) = lz.decode_nrun(&buf[..]);
    kani::assert(got == len, "O-09n: decoder returns the run length");
    kani::assert(used == n, "O-09n: decoder consumes exactly the token");
}

//@ obligation: O-09m
//@ props: C09 C18
//@ kind: complete
//@ functions: lz_diff::LZDiff::encode_match lz_diff::LZDiff::decode_match
//@ stubs: std::io::_eprint
//@ claim: for all ref_pos, pred_pos < 2^31, min_match_len in 5..=32 and every length (explicit >= min_match_len, or to-end): decode_match(encode_match(..), pred_pos) returns (ref_pos, len | u32::MAX, bytes emitted); bytes are digits '-' ',' '.' only
#[kani::proof]
#[kani::unwind(13)]
#[kani::stub(std::io::_eprint, stub_eprint)]
fn o09m_match_roundtrip() {
    let mm: u32 = kani::any();
    kani::assume(mm >= 5 && mm <= 32);
    let lz = mk(mm);
    let ref_pos: u32 = kani::any();
    let pred_pos: u32 = kani::any();
    kani::assume(ref_pos < (1u32 << 31) && pred_pos < (1u32 << 31));
    let to_end: bool = kani::any();
    let len: u32 = kani::any();
    kani::assume(len >= mm && len < (1u32 << 31));
    let mut buf: Vec<u8> = Vec::new();
    lz.encode_match(ref_pos, if to_end { None } else { Some(len) }, pred_pos, &mut buf);
    let n = buf.len();
    kani::cover!(to_end, "match-to-end form reachable");
    kani::cover!(!to_end && ref_pos < pred_pos, "negative position delta with explicit length reachable");
    kani::assert(n >= 2, "O-09m: at least a digit and the terminator");
    kani::assert(buf[n - 1] == b'.', "O-09m: match ends with '.'");
    let mut i = 0usize;
    let mut commas = 0u32;
    while i < n {
        let b = buf[i];
        kani::assert((b >= b'0' && b <= b'9') || b == b'-' || b == b',' || b == b'.', "O-09m: match bytes are digits - , . only");
        if b == b',' {
            commas += 1;
        }
        i += 1;
    }
    kani::assert(commas == if to_end { 0 } else { 1 }, "O-09m: comma present exactly when a length is present");
    kani::assert(!lz.is_literal(buf[0]) && buf[0] != N_RUN_STARTER_CODE, "O-09m: a match token is not mistaken for a literal or N-run");
    let (rp, l, used) = lz.decode_match(&buf[..], pred_pos as usize);
    kani::assert(rp == ref_pos as usize, "O-09m: decoder recovers the reference position");
    kani::assert(l == if to_end { u32::MAX } else { len }, "O-09m: decoder recovers the length (or the to-end sentinel)");
    kani::assert(used == n, "O-09m: decoder consumes exactly the token");
}

#[allow(dead_code)]
fn stub_eprint(_args: core::fmt::Arguments<'_>) {}
