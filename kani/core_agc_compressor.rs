//@@ crate: ragc-core
//@@ inject: ragc-core/src/agc_compressor.rs
//@@ module: agc_compressor
// Kani contracts for the private helpers of ragc-core/src/agc_compressor.rs that C01/C02 anchor on.
// (The 7.7 kLOC pipeline around them joins threads and is NOT under contract.)

use super::*;

/// reverse complement as the format defines it (C++ AGC: `(*p < 4) ? 3 - *p : *p`, reversed)
fn comp(b: u8) -> u8 {
    if b < 4 {
        3 - b
    } else {
        b
    }
}

//@ obligation: O-01a-seq
//@ props: C01
//@ kind: complete
//@ functions: agc_compressor::reverse_complement_sequence
//@ claim: reverse_complement_sequence reverses the segment and complements ONLY codes 0..=3 (N and the other IUPAC codes 4..=15, and 30, are kept), for ALL byte values; it is therefore undone by the decompressor's reverse complement (O-01a-dec, same spec, involution checked for all 256 bytes). Structure checked for lengths 0..=4 (the map is element-wise: iter().rev().map().collect())
#[kani::proof]
#[kani::unwind(6)]
fn o01a_reverse_complement_sequence_keeps_iupac() {
    let data: [u8; 4] = kani::any();
    let len: usize = kani::any();
    kani::assume(len <= 4);
    let out = reverse_complement_sequence(&data[..len]);
    kani::cover!(len == 4 && data[0] == 5, "IUPAC code in a length-4 segment reachable");
    kani::assert(out.len() == len, "O-01a-seq: length preserved");
    let mut i = 0usize;
    while i < 4 {
        if i < len {
            kani::assert(out[i] == comp(data[len - 1 - i]), "O-01a-seq: out[i] == comp(seq[len-1-i]) with non-ACGT codes kept");
        }
        i += 1;
    }
    let b: u8 = kani::any();
    kani::assert(comp(comp(b)) == b, "O-01a-seq: the complement map is an involution on every byte");
}

//@ obligation: O-02e-comp
//@ props: C02
//@ kind: complete
//@ functions: agc_compressor::PACK_CARDINALITY agc_compressor::NO_RAW_GROUPS
//@ claim: compressor-side format constants: packs hold 50 entries, groups 0..15 are raw
#[kani::proof]
fn o02e_format_constants_compressor() {
    kani::assert(PACK_CARDINALITY == 50, "O-02e: PACK_CARDINALITY == 50");
    kani::assert(NO_RAW_GROUPS == 16, "O-02e: NO_RAW_GROUPS == 16");
    kani::assert(ragc_common::CONTIG_SEPARATOR == 0xFF, "O-02e: pack separator is 0xFF");
    kani::assert(ragc_common::AGC_FILE_MAJOR == 3 && ragc_common::AGC_FILE_MINOR == 0, "O-02e: archive format version 3.0");
}

//@ obligation: O-18p
//@ props: C18 C05
//@ kind: complete
//@ functions: agc_compressor::sync_token_priority
//@ claim: the queue priority of a sync token, sync_token_priority(p) = p + SYNC_TOKEN_PRIORITY_BOOST, cannot overflow for EVERY sample priority the compressor hands out (priorities start at FIRST_SAMPLE_PRIORITY and only count down), lies strictly above p (the token is queued in front of its sample's contigs), and the first sample's token still fits in i32; all i32 values (loop-free, full domain)
//@ assumes: priorities only count down from FIRST_SAMPLE_PRIORITY (the decrements are inline in the threaded push and not under contract); underflow after 2^31 decrements is not considered
#[kani::proof]
fn o18p_sync_token_priority_no_overflow() {
    let p: i32 = kani::any();
    kani::assume(p <= FIRST_SAMPLE_PRIORITY);
    kani::cover!(p == FIRST_SAMPLE_PRIORITY, "the first sample's priority is reachable");
    let t = sync_token_priority(p);
    kani::assert(t as i64 == p as i64 + 1_000_000, "O-18p: the boost is exact (no wrap)");
    kani::assert(t > p, "O-18p: a sync token outranks the contigs of its sample");
    kani::assert(SYNC_TOKEN_PRIORITY_BOOST == 1_000_000, "O-18p: boost constant");
    kani::assert(FIRST_SAMPLE_PRIORITY as i64 + SYNC_TOKEN_PRIORITY_BOOST as i64 <= i32::MAX as i64, "O-18p: the first sample leaves room for the boost");
}
