//@@ crate: ragc-common
//@@ inject: ragc-common/src/varint.rs
//@@ module: varint
// Kani contracts for ragc-common/src/varint.rs.
// Compiled as a child module of `ragc_common::varint` (one `#[cfg(kani)] #[path] mod` line is
// appended to the scratch copy of varint.rs by the runner), so `super::*` is the REAL code.
//
// Every postcondition here is written from the AGC format rule
//   "length-prefixed big-endian integer: one count byte n (0..=8), then the n significant bytes,
//    most significant first; n is minimal; 0 is the single byte 00"
// and NOT from the body of write_varint, so that a consistent change to writer+reader still fails.

use super::*;

/// Independent spec: minimal number of bytes needed for `v` (loop-free, comparisons only).
fn spec_nbytes(v: u64) -> usize {
    if v == 0 {
        0
    } else if v < (1u64 << 8) {
        1
    } else if v < (1u64 << 16) {
        2
    } else if v < (1u64 << 24) {
        3
    } else if v < (1u64 << 32) {
        4
    } else if v < (1u64 << 40) {
        5
    } else if v < (1u64 << 48) {
        6
    } else if v < (1u64 << 56) {
        7
    } else {
        8
    }
}

//@ obligation: O-02a-w
//@ props: C02 C13 C18
//@ kind: complete
//@ functions: varint::write_varint
//@ claim: write_varint(v) writes exactly [n] ++ big_endian(v,n) with minimal n, returns n+1, touches nothing else; all 2^64 values (loops bounded by operand width 8, unwinding assertions on)
#[kani::proof]
#[kani::unwind(10)]
fn o02a_write_varint_layout() {
    let v: u64 = kani::any();
    let mut buf = [0xA5u8; 10];
    let ret;
    let remaining;
    {
        let mut w: &mut [u8] = &mut buf[..];
        ret = match write_varint(&mut w, v) {
            Ok(n) => n,
            Err(_) => {
                kani::assert(false, "O-02a-w: write_varint into a 10-byte buffer must not fail");
                return;
            }
        };
        remaining = w.len();
    }
    let nb = spec_nbytes(v);
    kani::cover!(nb == 8, "8-byte values reachable");
    kani::cover!(nb == 0, "zero reachable");
    kani::assert(ret == nb + 1, "O-02a-w: returned length == minimal byte count + 1");
    kani::assert(remaining == 10 - (nb + 1), "O-02a-w: exactly n+1 bytes are written");
    kani::assert(buf[0] as usize == nb, "O-02a-w: first byte is the minimal byte count");
    let mut i = 0usize;
    while i < 8 {
        if i < nb {
            let expect = ((v >> (8 * (nb - 1 - i))) & 0xff) as u8;
            kani::assert(buf[1 + i] == expect, "O-02a-w: payload is big-endian, most significant first");
        } else {
            kani::assert(buf[1 + i] == 0xA5, "O-02a-w: bytes after the encoding are untouched");
        }
        i += 1;
    }
    kani::assert(buf[9] == 0xA5, "O-02a-w: bytes after the encoding are untouched");
}

//@ obligation: O-02a-r
//@ props: C02 C13 C18
//@ kind: complete
//@ functions: varint::read_varint
//@ claim: read_varint on [n] ++ big_endian(v,n) built from the format spec, followed by ARBITRARY bytes, returns (v, n+1) and consumes exactly n+1 bytes; all u64
#[kani::proof]
#[kani::unwind(10)]
fn o02a_read_varint_inverts_spec() {
    let v: u64 = kani::any();
    let nb = spec_nbytes(v);
    let mut buf: [u8; 10] = kani::any(); // bytes after the encoding are arbitrary
    buf[0] = nb as u8;
    let mut i = 0usize;
    while i < 8 {
        if i < nb {
            buf[1 + i] = ((v >> (8 * (nb - 1 - i))) & 0xff) as u8;
        }
        i += 1;
    }
    let mut r: &[u8] = &buf[..];
    match read_varint(&mut r) {
        Ok((got, n)) => {
            kani::assert(got == v, "O-02a-r: read_varint returns the encoded value");
            kani::assert(n == nb + 1, "O-02a-r: read_varint reports n+1 bytes");
            kani::assert(r.len() == 10 - (nb + 1), "O-02a-r: read_varint consumes exactly n+1 bytes");
        }
        Err(_) => kani::assert(false, "O-02a-r: read_varint must accept a well-formed encoding"),
    }
}

//@ obligation: O-02a-rt
//@ props: C02 C13
//@ kind: complete
//@ functions: varint::write_varint varint::read_varint
//@ claim: read_varint(write_varint(v)) == v through the real pair, magnitudes up to 2^64-1
#[kani::proof]
#[kani::unwind(10)]
fn o02a_varint_roundtrip() {
    let v: u64 = kani::any();
    let mut buf = [0u8; 9];
    let wrote;
    {
        let mut w: &mut [u8] = &mut buf[..];
        wrote = match write_varint(&mut w, v) {
            Ok(n) => n,
            Err(_) => {
                kani::assert(false, "O-02a-rt: write must succeed");
                return;
            }
        };
    }
    let mut r: &[u8] = &buf[..];
    match read_varint(&mut r) {
        Ok((got, n)) => {
            kani::assert(got == v, "O-02a-rt: round trip returns the value");
            kani::assert(n == wrote, "O-02a-rt: reader and writer agree on the length");
        }
        Err(_) => kani::assert(false, "O-02a-rt: read must succeed"),
    }
}

//@ obligation: O-14v
//@ props: C14 C18
//@ kind: complete
//@ functions: varint::read_varint
//@ claim: read_varint on ANY byte string of length 0..=9 (garbage footer bytes, any truncation) returns Ok or Err, never panics or overflows; Ok consumes >= 1 byte (parse-loop progress)
#[kani::proof]
#[kani::unwind(11)]
fn o14_read_varint_total_on_garbage() {
    let buf: [u8; 9] = kani::any();
    let len: usize = kani::any();
    kani::assume(len <= 9);
    let mut r: &[u8] = &buf[..len];
    let before = r.len();
    match read_varint(&mut r) {
        Ok((_, n)) => {
            kani::cover!(n == 9, "full 8-byte payload reachable");
            kani::assert(before - r.len() == n, "O-14v: bytes consumed == reported length");
            kani::assert(n >= 1, "O-14v: progress: at least one byte consumed on success");
        }
        Err(_) => {
            kani::cover!(true, "error path reachable");
        }
    }
}

//@ obligation: O-02b
//@ props: C02 C13
//@ kind: complete
//@ functions: varint::write_fixed_u64 varint::read_fixed_u64
//@ claim: write_fixed_u64 is exactly 8 bytes little-endian; read_fixed_u64 inverts it
#[kani::proof]
fn o02b_fixed_u64_le() {
    let v: u64 = kani::any();
    let mut buf = [0xA5u8; 9];
    {
        let mut w: &mut [u8] = &mut buf[..];
        match write_fixed_u64(&mut w, v) {
            Ok(n) => kani::assert(n == 8, "O-02b: returns 8"),
            Err(_) => {
                kani::assert(false, "O-02b: write must succeed");
                return;
            }
        }
        kani::assert(w.len() == 1, "O-02b: exactly 8 bytes written");
    }
    let mut i = 0usize;
    while i < 8 {
        kani::assert(buf[i] == ((v >> (8 * i)) & 0xff) as u8, "O-02b: byte i is bits 8i..8i+7 (little-endian)");
        i += 1;
    }
    kani::assert(buf[8] == 0xA5, "O-02b: ninth byte untouched");
    let mut r: &[u8] = &buf[..8];
    match read_fixed_u64(&mut r) {
        Ok(got) => kani::assert(got == v, "O-02b: read_fixed_u64 inverts"),
        Err(_) => kani::assert(false, "O-02b: read must succeed"),
    }
}
