//@@ crate: ragc-core
//@@ inject: ragc-core/src/decompressor.rs
//@@ module: decompressor
// Kani contracts for private helpers of ragc-core/src/decompressor.rs.

use super::*;

fn comp(b: u8) -> u8 {
    if b < 4 {
        3 - b
    } else {
        b
    }
}

//@ obligation: O-01a-dec
//@ props: C01 C07
//@ kind: complete
//@ functions: decompressor::Decompressor::reverse_complement_segment
//@ claim: Decompressor::reverse_complement_segment(s)[i] == comp(s[len-1-i]) for ALL byte values, comp complementing only 0..=3 (== rc_spec of the Verus decompressor unit, whose external contract this discharges). Structure checked for lengths 0..=4 (element-wise iterator map)
#[kani::proof]
#[kani::unwind(6)]
fn o01a_reverse_complement_segment_matches_spec() {
    let data: [u8; 4] = kani::any();
    let len: usize = kani::any();
    kani::assume(len <= 4);
    let out = Decompressor::reverse_complement_segment(&data[..len]);
    kani::cover!(len == 4 && data[3] == 15, "IUPAC code reachable");
    kani::assert(out.len() == len, "O-01a-dec: length preserved");
    let mut i = 0usize;
    while i < 4 {
        if i < len {
            kani::assert(out[i] == comp(data[len - 1 - i]), "O-01a-dec: out[i] == comp(seg[len-1-i])");
        }
        i += 1;
    }
}

//@ obligation: O-07u
//@ props: C07 C01
//@ kind: bounded
//@ bound: 0..=2 packed bytes (element-wise expansion; all byte values, every expected length)
//@ tier: thorough
//@ timeout: 1500
//@ functions: decompressor::Decompressor::unpack_2bit
//@ claim: unpack_2bit expands each byte to its four 2-bit codes, most significant first, truncated to the expected length; checked for all byte values, 0..=2 packed bytes, every expected length
#[kani::proof]
#[kani::unwind(10)]
fn o07u_unpack_2bit() {
    let data: [u8; 2] = kani::any();
    let n: usize = kani::any();
    kani::assume(n <= 2);
    let want: usize = kani::any();
    kani::assume(want <= 4 * n);
    let out = Decompressor::unpack_2bit(&data[..n], want);
    kani::assert(out.len() == want, "O-07u: output has the expected length");
    let i: usize = kani::any();
    kani::assume(i < want);
    let expect = (data[i / 4] >> (6 - 2 * (i % 4))) & 3;
    kani::assert(out[i] == expect, "O-07u: base i is bits (7-2(i%4))..(6-2(i%4)) of byte i/4");
}
